#!/bin/bash
# Build /verif/.venv offline: python 3.12 venv layered over /venv's site-packages and /repo/src, plus crosshair + z3 from the wheelhouse.
set -e
cd "$(dirname "$0")"
if [ -x .venv/bin/python ] && .venv/bin/python -c "import crosshair, z3, fst" 2>/dev/null; then
  exit 0
fi
rm -rf .venv
/venv/bin/python -m venv .venv
SP=$(.venv/bin/python -c "import sysconfig; print(sysconfig.get_paths()['purelib'])")
printf '/repo/src\n/venv/lib/python3.12/site-packages\n' > "$SP/pfst_verif.pth"
PIP_NO_INDEX=1 .venv/bin/pip install -q --no-index --find-links /opt/veriftools/wheels crosshair-tool z3-solver >/dev/null
.venv/bin/python -c "import crosshair, z3, fst; assert fst.__file__.startswith('/repo/src'), fst.__file__"
