"""Harness-side helpers: assume / fail / cover, Cell descriptor, small pure-Python references.

Everything here is plain Python so that a harness function can be (a) executed symbolically by engine.sx and
(b) re-executed concretely, untraced, by engine.replay on realised counterexample values.
"""
from __future__ import annotations

import inspect
import json
import os
from dataclasses import dataclass, field
from typing import Any, Callable, List, Optional

try:
    from crosshair.util import IgnoreAttempt
except Exception:  # replay in an interpreter without crosshair
    class IgnoreAttempt(BaseException):  # type: ignore
        pass

VERIF = os.path.dirname(os.path.dirname(os.path.abspath(__file__)))


class HViolation(AssertionError):
    """Property violation raised by a harness. `sig` identifies the failing input/call/history (used to match
    known findings); `detail` is free text."""

    def __init__(self, sig: Any, detail: Any = ''):
        AssertionError.__init__(self, sig, detail)
        self.sig = sig
        self.detail = detail


def assume(c: Any) -> None:
    if not c:
        raise IgnoreAttempt('assume')


def fail(sig: Any, detail: Any = '') -> None:
    raise HViolation(sig, detail)


def check(c: Any, sig: Any, detail: Any = '') -> None:
    if not c:
        raise HViolation(sig, detail)


import traceback


def _sig_of(exc: BaseException) -> str:
    if isinstance(exc, HViolation):
        return str(exc.sig)
    tb = traceback.extract_tb(exc.__traceback__)
    where = ''
    for fr in reversed(tb):
        if '/harness/' in fr.filename or '/engine/' in fr.filename:
            where = f'{os.path.basename(fr.filename)}:{fr.name}'
            break
    if not where and tb:
        fr = tb[-1]
        where = f'{os.path.basename(fr.filename)}:{fr.name}'
    return f'{type(exc).__name__}@{where}'


def run_concrete(fn: Callable, args: Dict[str, Any]):
    """Plain, untraced execution on concrete values. -> (outcome, sig, detail)"""
    try:
        ba = inspect.signature(fn).bind(**args)
        fn(*ba.args, **ba.kwargs)
    except IgnoreAttempt:
        return 'assume', None, None
    except HViolation as e:
        return 'violation', str(e.sig), repr(e.detail)[:2000]
    except Exception as e:  # noqa: BLE001
        return 'violation', _sig_of(e), (repr(e)[:500] + ' | ' + ''.join(traceback.format_exception_only(type(e), e))[:500]
                                         + ' | ' + ' <- '.join(f'{os.path.basename(f.filename)}:{f.lineno}' for f in reversed(traceback.extract_tb(e.__traceback__)[-6:])))
    return 'ok', None, None


COVER: set = set()


def cover(label: str) -> None:
    COVER.add(label)


@dataclass
class Cell:
    name: str
    fn: Callable
    shape: str = 'K'                    # K kernel / T template tree / P symbolic parameters over carriers
    functions: List[str] = field(default_factory=list)   # dotted names of the pfst functions driven
    bounds: str = ''
    tier: str = 'quick'                 # 'quick' = run in both tiers, 'thorough' = only in thorough
    budget: float = 120.0               # CPU seconds for the whole cell
    per_path: float = 30.0
    max_paths: int = 1_000_000
    samples: int = 3
    stubs: List[str] = field(default_factory=list)
    assumptions: List[str] = field(default_factory=list)
    out: str = ''                       # what lies outside this cell's claim
    reset: Optional[Callable] = None    # called before every path (global pfst state)


# ----------------------------------------------------------------------------------------------------------------------
# small references shared by harnesses (none of this imports pfst)

def w8(o: int) -> int:
    """UTF-8 width of a code point."""
    return 1 if o < 0x80 else 2 if o < 0x800 else 3 if o < 0x10000 else 4


def okcp(o: int) -> bool:
    return 0 <= o <= 0x10FFFF and not (0xD800 <= o <= 0xDFFF)


def pos_le(p, q) -> bool:
    return p[0] < q[0] or (p[0] == q[0] and p[1] <= q[1])


def pos_lt(p, q) -> bool:
    return p[0] < q[0] or (p[0] == q[0] and p[1] < q[1])


def ref_slice_indices(len_: int, start: int, stop: int):
    """slice(start, stop).indices(len_)[:2] written with comparisons only (stays symbolic)."""
    if start < 0:
        start = start + len_
        if start < 0:
            start = 0
    elif start > len_:
        start = len_
    if stop < 0:
        stop = stop + len_
        if stop < 0:
            stop = 0
    elif stop > len_:
        stop = len_
    return start, stop


def load_known() -> list:
    p = os.path.join(VERIF, 'known_findings.json')
    if not os.path.exists(p):
        return []
    with open(p) as f:
        return json.load(f).get('findings', [])
