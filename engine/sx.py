"""Path-exhaustive symbolic execution driver on top of CrossHair's lower layer (StateSpace / RootNode / tracer).

One iteration = one path through the harness function under CrossHair's tracer with z3 deciding every branch on
symbolic values. The decision tree (`RootNode`) is shared between iterations, `bubble_status` tells when it is
exhausted. Verdict per cell:

  proved      tree exhausted, zero UNKNOWN leaves, >= 1 confirmed leaf  (holds for ALL values inside the bounds)
  refuted     a counterexample which re-executes concretely (untraced) with the same violation
  incomplete  budget / max_paths hit or some leaf UNKNOWN (solver unknown, path timeout, unsupported op)
  vacuous     tree exhausted without any confirmed leaf (assumptions unsatisfiable / assertion never reached)
  harness_error  counterexample does not reproduce concretely, or nondeterminism between paths

Every z3 query passes through crosshair.statespace.solver_is_sat, wrapped here to count queries and solver time.
"""
from __future__ import annotations

import inspect
import os
import sys
import time
import traceback
from typing import Any, Callable, Dict

import crosshair.statespace as _ss
from crosshair.condition_parser import condition_parser
from crosshair.copyext import CopyMode
from crosshair.core import ExceptionFilter, Patched, deep_realize, deepcopyext, gen_args
from crosshair.core_and_libs import NoTracing, ResumedTracing  # noqa: F401  (loads library patches)
from crosshair.options import AnalysisKind
from crosshair.statespace import CallAnalysis, RootNode, StateSpace, StateSpaceContext, VerificationStatus
from crosshair.tracers import COMPOSITE_TRACER
from crosshair.util import IgnoreAttempt, NotDeterministic, UnexploredPath

from . import chfix  # noqa: F401
from .h import COVER, HViolation, run_concrete, _sig_of  # noqa: F401

STATS = {'queries': 0, 'solver_s': 0.0}
_orig_is_sat = _ss.solver_is_sat


def _counting_is_sat(solver, *exprs):
    t = time.perf_counter()
    try:
        return _orig_is_sat(solver, *exprs)
    finally:
        STATS['queries'] += 1
        STATS['solver_s'] += time.perf_counter() - t


_ss.solver_is_sat = _counting_is_sat


def _jsonable(v):
    if isinstance(v, (bool, int, str, type(None), float)):
        return v
    if isinstance(v, (list, tuple)):
        return [_jsonable(x) for x in v]
    if isinstance(v, dict):
        return {str(k): _jsonable(x) for k, x in v.items()}
    return repr(v)


def explore(fn: Callable, *, budget_s: float = 120.0, per_path_s: float = 30.0, max_paths: int = 1_000_000,
            n_samples: int = 3, known_sigs=frozenset(), reset: Callable | None = None) -> Dict[str, Any]:
    sig = inspect.signature(fn, eval_str=True)
    root = RootNode()
    res: Dict[str, Any] = dict(paths=0, confirmed=0, unknown=0, ignored=0, exhausted=False, verdict='incomplete',
                               cex=None, known_hits={}, samples=[], samples_validated=0, unknown_reasons={})
    q0, s0 = STATS['queries'], STATS['solver_s']
    t0 = time.process_time()
    w0 = time.time()
    COVER.clear()
    stop = False
    while not stop:
        if time.process_time() - t0 > budget_s or res['paths'] >= max_paths:
            break
        if reset is not None:
            reset()
        start = time.process_time()
        space = StateSpace(execution_deadline=start + per_path_s, model_check_timeout=per_path_s / 2, search_root=root)
        res['paths'] += 1
        status = None
        exhausted = False
        with condition_parser([AnalysisKind.asserts]), Patched(), COMPOSITE_TRACER, NoTracing(), StateSpaceContext(space):
            try:
                pre_args = gen_args(sig)
                args = deepcopyext(pre_args, CopyMode.REGULAR, {})
                with ExceptionFilter() as efilter, ResumedTracing():
                    fn(*args.args, **args.kwargs)
                if efilter.user_exc:
                    exc, _stack = efilter.user_exc
                    if isinstance(exc, NotDeterministic):
                        raise NotDeterministic
                    ksig = getattr(exc, 'sig', None)
                    if type(ksig) is str and ksig in known_sigs and ksig in res['known_hits']:
                        # a listed finding already reproduced concretely in this cell: count the path without realising its
                        # inputs (realising forks the tree per value; over an unbounded integer that never ends)
                        res['known_hits'][ksig]['n'] += 1
                        outcome = csig = cdetail = None
                    else:
                        cex = {k: _jsonable(deep_realize(v)) for k, v in pre_args.arguments.items()}
                        outcome, csig, cdetail = run_concrete(fn, cex)   # untraced (NoTracing is active here)
                    if outcome is None:
                        status = VerificationStatus.CONFIRMED
                    elif outcome != 'violation':
                        try:
                            sym = type(exc).__name__ + ':' + repr(deep_realize(exc.args))[:300]
                        except Exception:  # noqa: BLE001
                            sym = type(exc).__name__
                        res['cex'] = dict(args=cex, sig=None, detail=f'symbolic run raised {sym}; concrete run: {outcome}',
                                          reproduced=False)
                        res['verdict'] = 'harness_error'
                        stop = True
                        status = VerificationStatus.UNKNOWN
                    elif csig in known_sigs:
                        res['known_hits'].setdefault(csig, dict(n=0, args=cex, detail=cdetail))['n'] += 1
                        status = VerificationStatus.CONFIRMED
                    else:
                        res['cex'] = dict(args=cex, sig=csig, detail=cdetail, reproduced=True)
                        res['verdict'] = 'refuted'
                        stop = True
                        status = VerificationStatus.REFUTED
                elif efilter.ignore:
                    status = None
                    res['ignored'] += 1
                else:
                    status = VerificationStatus.CONFIRMED
                    res['confirmed'] += 1
                    if len(res['samples']) < n_samples:
                        sample = {k: _jsonable(deep_realize(v)) for k, v in pre_args.arguments.items()}
                        outcome, csig, cdetail = run_concrete(fn, sample)
                        res['samples'].append(sample)
                        if outcome == 'ok':
                            res['samples_validated'] += 1
                        elif outcome == 'violation' and csig in known_sigs:
                            pass
                        else:
                            # the symbolic path said "fine" but the concrete run of one of its models disagrees
                            res['cex'] = dict(args=sample, sig=csig, reproduced=(outcome == 'violation'),
                                              detail=f'confirmed symbolic leaf, concrete run of its model: {outcome} {cdetail}')
                            res['verdict'] = 'refuted' if outcome == 'violation' else 'harness_error'
                            stop = True
            except IgnoreAttempt:
                status = None
                res['ignored'] += 1
            except UnexploredPath as e:
                status = VerificationStatus.UNKNOWN
                res['unknown'] += 1
                k = type(e).__name__
                res['unknown_reasons'][k] = res['unknown_reasons'].get(k, 0) + 1
            except NotDeterministic:
                res['verdict'] = 'harness_error'
                res['cex'] = dict(args=None, sig=None, reproduced=False, detail='NotDeterministic: harness state leaks between paths')
                stop = True
                status = VerificationStatus.UNKNOWN
            try:
                _a, exhausted = space.bubble_status(CallAnalysis(status))
            except Exception as e:  # noqa: BLE001
                if not stop:
                    res['verdict'] = 'harness_error'
                    res['cex'] = dict(args=None, sig=None, reproduced=False, detail=f'bubble_status: {e!r}')
                    stop = True
        if exhausted and not stop:
            res['exhausted'] = True
            break
    if res['verdict'] == 'incomplete' and res['exhausted']:
        if res['unknown']:
            res['verdict'] = 'incomplete'
        elif res['confirmed'] + sum(v['n'] for v in res['known_hits'].values()) == 0:
            res['verdict'] = 'vacuous'
        else:
            res['verdict'] = 'proved'
    res['cpu_s'] = round(time.process_time() - t0, 2)
    res['wall_s'] = round(time.time() - w0, 2)
    res['solver_queries'] = STATS['queries'] - q0
    res['solver_s'] = round(STATS['solver_s'] - s0, 2)
    res['cover'] = sorted(COVER)
    return res
