"""Runner: all cells of one property's harness module, one worker process per cell, spread over the cores.

usage: python -m engine.run <PROPERTY_ID> [--tier quick|thorough] [--cells REGEX] [--jobs N] [--replay PATH]
exit 0: property held on everything explored (KNOWN-FINDING lines possible); exit 1: VIOLATION (replayed);
exit 3: HARNESS-ERROR (never a verdict about pfst).
"""
from __future__ import annotations

import argparse
import concurrent.futures as cf
import hashlib
import importlib
import json
import os
import re
import subprocess
import sys
import time

VERIF = os.path.dirname(os.path.dirname(os.path.abspath(__file__)))
sys.path.insert(0, VERIF)

TRUSTED = ['CrossHair 0.0.110 models of int/str/list/dict/re and its bytecode tracer (for "proved" verdicts only; '
           'every refutation is re-executed concretely, untraced)', 'z3-solver 4.x as shipped in the wheelhouse',
           'CPython 3.12 ast.parse / tokenize / symtable as concrete oracles at leaves',
           'two corrections to CrossHair 0.0.110 models applied by engine/chfix.py: re.search empty match at end of string; list[sym:sym] snapshot instead of live view']


def run_worker(py, modname, cell, scale):
    wall_limit = cell.budget * scale * 2.0 + 120
    t = time.time()
    try:
        p = subprocess.run([py, '-m', 'engine.worker', modname, cell.name, str(scale)], cwd=VERIF, capture_output=True,
                           text=True, timeout=wall_limit, env=dict(os.environ, PYTHONHASHSEED='0'))
    except subprocess.TimeoutExpired:
        return dict(cell=cell.name, verdict='incomplete', paths=0, confirmed=0, unknown=0, ignored=0, exhausted=False,
                    solver_queries=0, solver_s=0.0, cpu_s=0.0, wall_s=round(time.time() - t, 1), samples=[], samples_validated=0,
                    known_hits={}, cex=None, error=f'wall timeout {wall_limit:.0f}s', functions={}, cover=[])
    for line in p.stdout.splitlines():
        if line.startswith('RESULT:'):
            return json.loads(line[7:])
    return dict(cell=cell.name, verdict='harness_error', paths=0, confirmed=0, unknown=0, ignored=0, exhausted=False,
                solver_queries=0, solver_s=0.0, cpu_s=0.0, wall_s=round(time.time() - t, 1), samples=[], samples_validated=0,
                known_hits={}, cex=dict(args=None, sig=None, reproduced=False, detail='worker died: ' + (p.stderr or p.stdout)[-1500:]),
                functions={}, cover=[])


def fresh_replay(py, path):
    p = subprocess.run([py, '-m', 'engine.replay', path], cwd=VERIF, capture_output=True, text=True, timeout=600)
    return p.returncode == 1, (p.stdout + p.stderr)[-1500:]


def main():
    ap = argparse.ArgumentParser()
    ap.add_argument('prop')
    ap.add_argument('--tier', default=os.environ.get('VERIF_TIER', 'quick'))
    ap.add_argument('--cells', default=None)
    ap.add_argument('--jobs', type=int, default=int(os.environ.get('VERIF_JOBS', os.cpu_count() or 4)))
    ap.add_argument('--replay', default=None)
    ap.add_argument('--no-evidence', action='store_true')
    a = ap.parse_args()
    prop = a.prop.upper()
    py = sys.executable
    tier = 'thorough' if a.tier == 'thorough' else 'quick'
    seed = int(os.environ.get('VERIF_SEED', '0') or 0)

    if a.replay:
        ok, out = fresh_replay(py, a.replay)
        print(out)
        if ok:
            print(f'VIOLATION property={prop} replay={a.replay}')
            sys.exit(1)
        print(f'replay did not reproduce a violation of {prop}')
        sys.exit(0)

    modname = 'harness.' + prop.lower()
    t0 = time.time()
    mod = importlib.import_module(modname)
    cells = [c for c in mod.CELLS if tier == 'thorough' or c.tier == 'quick']
    stride = int(getattr(mod, 'THOROUGH_STRIDE', 1))
    if tier == 'thorough' and stride > 1 and not a.cells:
        # sized by total wall time: every quick cell plus every stride-th of the thorough-only cells (deterministic; the cells actually run are listed in evidence)
        extra = [c for c in cells if c.tier != 'quick']
        keep = set(id(c) for c in extra[::stride])
        cells = [c for c in cells if c.tier == 'quick' or id(c) in keep]
    if a.cells:
        cells = [c for c in cells if re.search(a.cells, c.name)]
    scale = float(os.environ.get('VERIF_BUDGET_SCALE', '1.0')) * (getattr(mod, 'THOROUGH_SCALE', 3.0) if tier == 'thorough' else 1.0)
    cells_sorted = sorted(cells, key=lambda c: -c.budget)
    results = {}
    with cf.ThreadPoolExecutor(max_workers=max(1, a.jobs)) as ex:
        futs = {ex.submit(run_worker, py, modname, c, scale): c for c in cells_sorted}
        for f in cf.as_completed(futs):
            c = futs[f]
            r = f.result()
            results[c.name] = r
            print(f"[{prop}] {c.name}: {r['verdict']} paths={r['paths']} confirmed={r['confirmed']} unknown={r['unknown']} "
                  f"queries={r['solver_queries']} solver_s={r['solver_s']} cpu_s={r['cpu_s']}"
                  + (f" known_hits={sum(v['n'] for v in r['known_hits'].values())}" if r.get('known_hits') else '')
                  + (f" err={r['error']}" if r.get('error') else ''), flush=True)

    violations = []
    harness_errors = []
    known_lines = {}
    os.makedirs(os.path.join(VERIF, 'replays', prop), exist_ok=True)
    for c in cells:
        r = results[c.name]
        for sig, kh in r.get('known_hits', {}).items():
            known_lines.setdefault(sig, (c.name, kh))
        if r['verdict'] in ('refuted', 'harness_error') and r.get('cex'):
            cex = r['cex']
            if r['verdict'] == 'refuted' and cex.get('reproduced'):
                rec = dict(property=prop, harness=modname, cell=c.name, args=cex['args'], sig=cex['sig'], detail=cex['detail'])
                hsh = hashlib.sha256(json.dumps(rec, sort_keys=True).encode()).hexdigest()[:12]
                path = os.path.join(VERIF, 'replays', prop, f'{hsh}.json')
                with open(path, 'w') as fh:
                    json.dump(rec, fh, indent=1)
                ok, out = fresh_replay(py, path)
                if ok:
                    violations.append((c.name, path, cex))
                else:
                    harness_errors.append((c.name, 'counterexample did not reproduce in a fresh interpreter: ' + out[-400:]))
            else:
                harness_errors.append((c.name, str(cex.get('detail'))[:1500]))
        elif r['verdict'] == 'vacuous':
            harness_errors.append((c.name, 'vacuous: tree exhausted without a confirmed leaf (assumptions unsatisfiable?)'))

    # one line per LISTED finding (an entry with 'sig_re' covers the option variants of one finding)
    import re as _re
    from .h import load_known
    entries = [k for k in load_known() if k.get('status') == 'known' and k.get('property') == prop]
    grouped = {}
    for sig, (cname, kh) in sorted(known_lines.items()):
        ent = next((k for k in entries if k.get('sig') == sig or ('sig_re' in k and _re.fullmatch(k['sig_re'], sig))), None)
        key = (ent.get('sig') or 're:' + ent['sig_re']) if ent else sig
        g = grouped.setdefault(key, dict(cell=cname, first=sig, n=0, variants=0))
        g['n'] += kh['n']
        g['variants'] += 1
    for key, g in sorted(grouped.items()):
        print(f'KNOWN-FINDING: property={prop} cell={g["cell"]} sig={key} hits={g["n"]}' + (f' (first of {g["variants"]} variants: {g["first"]})' if g['variants'] > 1 else ''))
    for cname, path, cex in violations:
        print(f'  counterexample cell={cname} args={json.dumps(cex["args"])[:600]} sig={cex["sig"]}\n  detail={str(cex["detail"])[:1200]}')
        print(f'VIOLATION property={prop} replay={path}')
    for cname, msg in harness_errors:
        print(f'HARNESS-ERROR property={prop} cell={cname}: {msg}')

    wall = time.time() - t0
    paths = sum(r['paths'] for r in results.values())
    incomplete = [c.name for c in cells if results[c.name]['verdict'] == 'incomplete']
    proved = [c.name for c in cells if results[c.name]['verdict'] == 'proved']
    samples = []
    for c in cells:
        for s in results[c.name].get('samples', [])[:2]:
            samples.append({'cell': c.name, 'args': s})
    harnesses = []
    for c in cells:
        r = results[c.name]
        harnesses.append(dict(name=c.name, shape=c.shape, functions_encoded=r.get('functions', {}), bounds=c.bounds, outside=c.out,
                              verdict=r['verdict'], paths=r['paths'], confirmed=r['confirmed'], ignored=r['ignored'], unknown=r['unknown'],
                              unknown_reasons=r.get('unknown_reasons', {}), exhausted=r['exhausted'], solver_queries=r['solver_queries'],
                              solver_s=r['solver_s'], cpu_s=r['cpu_s'], wall_s=r.get('wall_s'), stubs=c.stubs, assumptions=c.assumptions,
                              known_finding_leaves=sum(v['n'] for v in r.get('known_hits', {}).values()), cover=r.get('cover', []),
                              error=r.get('error')))
    ev = dict(
        property_id=prop, tier=tier, seed=seed, level='model_checking',
        coverage=dict(
            states=max(1, paths),
            transitions=max(1, sum(r['solver_queries'] for r in results.values())),
            traces_validated_against_impl=sum(r.get('samples_validated', 0) for r in results.values()) + len(violations),
            samples=samples[:40] or [{'note': 'no confirmed leaf sampled'}],
            exhaustive=(not incomplete and not harness_errors and not violations),
            explanation=('states = execution paths (leaves of the z3-decided path tree) explored through the real pfst code; transitions = z3 '
                         'satisfiability queries discharged; traces_validated = leaf models re-executed concretely (untraced) against the '
                         'real code with the same assertions. "exhaustive" means every cell\'s path tree was exhausted with zero UNKNOWN leaves, '
                         'i.e. the assertion holds for ALL values of the symbolic inputs inside each cell\'s stated bounds; nothing is claimed outside them.'),
            cells_total=len(cells), cells_proved=len(proved), cells_incomplete=incomplete,
            solver_s=round(sum(r['solver_s'] for r in results.values()), 1),
            cpu_s=round(sum(r['cpu_s'] for r in results.values()), 1),
            known_findings_hit=sorted(known_lines),
            harnesses=harnesses,
            trusted_base=TRUSTED,
        ),
        assumptions=sorted({x for c in cells for x in c.assumptions} | {'stub: ' + x for c in cells for x in c.stubs}) + TRUSTED,
        wall_s=round(wall, 1), violations=len(violations),
    )
    if not a.no_evidence and not a.cells:
        os.makedirs(os.path.join(VERIF, 'evidence'), exist_ok=True)
        with open(os.path.join(VERIF, 'evidence', f'{prop}.json'), 'w') as fh:
            json.dump(ev, fh, indent=1)
    print(f'[{prop}] tier={tier} cells={len(cells)} proved={len(proved)} incomplete={len(incomplete)} paths={paths} '
          f'queries={ev["coverage"]["transitions"]} solver_s={ev["coverage"]["solver_s"]} wall_s={wall:.0f}')
    for n in incomplete:
        print(f'INCOMPLETE property={prop} cell={n} (not counted as success; see evidence)')
    if violations:
        sys.exit(1)
    if harness_errors:
        sys.exit(3)
    sys.exit(0)


if __name__ == '__main__':
    main()
