"""Harness debugging aid (NOT a check): run cells concretely on a small integer grid to find harness bugs fast."""
import importlib, itertools, sys, inspect, re, collections
from engine.h import run_concrete
mod = importlib.import_module(sys.argv[1])
pat = sys.argv[2] if len(sys.argv) > 2 else '.'
grid = [int(x) for x in sys.argv[3].split(',')] if len(sys.argv) > 3 else [-7, -3, -1, 0, 1, 2, 4, 9]
tot = collections.Counter()
for c in mod.CELLS:
    if not re.search(pat, c.name): continue
    names = list(inspect.signature(c.fn).parameters)
    seen = {}
    cnt = collections.Counter()
    for vals in itertools.product(grid, repeat=len(names)):
        if c.reset: c.reset()
        o, sig, det = run_concrete(c.fn, dict(zip(names, vals)))
        cnt[o] += 1
        if o == 'violation' and sig not in seen:
            seen[sig] = (vals, det)
    tot.update(cnt)
    print(c.name, dict(cnt))
    for s, (v, d) in seen.items():
        print('   VIOL', s, v, str(d)[:700])
print(dict(tot))
