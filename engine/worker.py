"""Run ONE cell of one harness module in this process; print a JSON result line prefixed by RESULT:"""
from __future__ import annotations

import hashlib
import importlib
import inspect
import json
import sys

sys.setrecursionlimit(10000)


def find_cell(modname: str, cellname: str):
    mod = importlib.import_module(modname)
    for c in mod.CELLS:
        if c.name == cellname:
            return mod, c
    raise SystemExit(f'no cell {cellname} in {modname}')


def fn_sources(names):
    out = {}
    for dotted in names:
        try:
            parts = dotted.split('.')
            obj = None
            for i in range(len(parts), 0, -1):
                try:
                    obj = importlib.import_module('.'.join(parts[:i]))
                    rest = parts[i:]
                    break
                except ImportError:
                    continue
            for r in rest:
                obj = getattr(obj, r)
            obj = inspect.unwrap(obj) if callable(obj) else obj
            if isinstance(obj, (staticmethod, classmethod)):
                obj = obj.__func__
            if isinstance(obj, property):
                obj = obj.fget
            src = inspect.getsource(obj)
            out[dotted] = hashlib.sha256(src.encode()).hexdigest()[:16]
        except Exception as e:  # noqa: BLE001
            out[dotted] = f'unresolved: {type(e).__name__}'
    return out


class KnownSigs:
    """membership test for the listed known findings of one property: exact 'sig', or 'sig_re' (a regular expression which must match the WHOLE
    signature — used where one finding shows under several option variants whose names are part of the signature)"""

    def __init__(self, entries):
        import re
        self.exact = frozenset(k['sig'] for k in entries if 'sig' in k)
        self.res = [re.compile(k['sig_re']) for k in entries if 'sig_re' in k]

    def __contains__(self, sig):
        return isinstance(sig, str) and (sig in self.exact or any(r.fullmatch(sig) for r in self.res))


def main():
    modname, cellname = sys.argv[1], sys.argv[2]
    scale = float(sys.argv[3]) if len(sys.argv) > 3 else 1.0
    from . import sx
    from .h import load_known
    mod, cell = find_cell(modname, cellname)
    prop = getattr(mod, 'PROPERTY', '')
    known = KnownSigs([k for k in load_known() if k.get('status') == 'known' and k.get('property') == prop])
    res = sx.explore(cell.fn, budget_s=cell.budget * scale, per_path_s=cell.per_path, max_paths=cell.max_paths,
                     n_samples=cell.samples, known_sigs=known, reset=cell.reset)
    res['cell'] = cell.name
    res['functions'] = fn_sources(cell.functions)
    print('RESULT:' + json.dumps(res))


if __name__ == '__main__':
    main()
