"""Re-execute a recorded counterexample concretely in a fresh interpreter: no tracer, no patches, real bistr.

usage: python -m engine.replay <replay.json>   -> exit 1 + 'REPRODUCED ...' if the violation reproduces, 0 otherwise
"""
from __future__ import annotations

import json
import sys

sys.setrecursionlimit(10000)


def main():
    rec = json.load(open(sys.argv[1]))
    from .h import run_concrete
    from .worker import find_cell
    _mod, cell = find_cell(rec['harness'], rec['cell'])
    if cell.reset:
        cell.reset()
    outcome, sig, detail = run_concrete(cell.fn, rec['args'])
    print(json.dumps(dict(outcome=outcome, sig=sig, detail=detail)))
    if outcome == 'violation':
        print(f"REPRODUCED property={rec['property']} cell={rec['cell']} sig={sig}")
        sys.exit(1)
    sys.exit(0)


if __name__ == '__main__':
    main()
