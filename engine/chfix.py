"""Corrections to CrossHair 0.0.110's symbolic library models, found while building the harnesses.

Each one makes the model agree with CPython (validated by the concrete re-run of sampled leaves); none touches pfst.

1. relib._search: `while pos < endpos` never tries the empty match at the very end of the string, so a pattern such as
   r'(\\\\|#.*)?$' "cannot be found" in a symbolic string although re.search always finds it. Fixed to `pos <= endpos`.
"""
import re
from typing import Optional, Union

import crosshair.core_and_libs  # noqa: F401
from crosshair import core as _core
from crosshair.core import realize
from crosshair.libimpl import relib as _relib
from crosshair.libimpl.builtinslib import AnySymbolicStr
from crosshair.tracers import NoTracing
from crosshair.util import debug

BytesLike = _relib.BytesLike
ReUnhandled = _relib.ReUnhandled
_match_pattern = _relib._match_pattern
_check_str_or_bytes = _relib._check_str_or_bytes


def _search_fixed(self: re.Pattern, string, pos: int = 0, endpos: Optional[int] = None):
    chr, ord = _check_str_or_bytes(self, string)
    if not isinstance(pos, int):
        raise TypeError
    if not (endpos is None or isinstance(endpos, int)):
        raise TypeError
    pos, endpos = realize(pos), realize(endpos)
    mylen = string.__len__()
    with NoTracing():
        if isinstance(string, (AnySymbolicStr, BytesLike)):
            pos, endpos, _ = slice(pos, endpos, 1).indices(realize(mylen))
            try:
                while pos <= endpos:
                    match = _match_pattern(self, string, pos, endpos, chr=chr, ord=ord)
                    if match:
                        return match
                    pos += 1
                return None
            except ReUnhandled as e:
                debug("Unsupported symbolic regex", self.pattern, e)
        if endpos is None:
            return re.Pattern.search(self, realize(string), pos)
        else:
            return re.Pattern.search(self, realize(string), pos, endpos)


for _k, _v in list(_core._PATCH_REGISTRATIONS.items()):
    if _v is _relib._search:
        _core._PATCH_REGISTRATIONS[_k] = _search_fixed

FIXES = ['CrossHair relib._search corrected to try the empty match at end of string (engine/chfix.py)']
