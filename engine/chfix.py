"""Corrections to CrossHair 0.0.110's symbolic library models, found while building the harnesses.

Each one makes the model agree with CPython (validated by the concrete re-run of sampled leaves); none touches pfst.

1. relib._search: `while pos < endpos` never tries the empty match at the very end of the string, so a pattern such as
   r'(\\\\|#.*)?$' "cannot be found" in a symbolic string although re.search always finds it. Fixed to `pos <= endpos`.
"""
import re
from typing import Optional, Union

import crosshair.core_and_libs  # noqa: F401
from crosshair import core as _core
from crosshair.core import realize
from crosshair.libimpl import relib as _relib
from crosshair.libimpl.builtinslib import AnySymbolicStr
from crosshair.tracers import NoTracing
from crosshair.util import debug

BytesLike = _relib.BytesLike
ReUnhandled = _relib.ReUnhandled
_match_pattern = _relib._match_pattern
_check_str_or_bytes = _relib._check_str_or_bytes


def _search_fixed(self: re.Pattern, string, pos: int = 0, endpos: Optional[int] = None):
    chr, ord = _check_str_or_bytes(self, string)
    if not isinstance(pos, int):
        raise TypeError
    if not (endpos is None or isinstance(endpos, int)):
        raise TypeError
    pos, endpos = realize(pos), realize(endpos)
    mylen = string.__len__()
    with NoTracing():
        if isinstance(string, (AnySymbolicStr, BytesLike)):
            pos, endpos, _ = slice(pos, endpos, 1).indices(realize(mylen))
            try:
                while pos <= endpos:
                    match = _match_pattern(self, string, pos, endpos, chr=chr, ord=ord)
                    if match:
                        return match
                    pos += 1
                return None
            except ReUnhandled as e:
                debug("Unsupported symbolic regex", self.pattern, e)
        if endpos is None:
            return re.Pattern.search(self, realize(string), pos)
        else:
            return re.Pattern.search(self, realize(string), pos, endpos)


for _k, _v in list(_core._PATCH_REGISTRATIONS.items()):
    if _v is _relib._search:
        _core._PATCH_REGISTRATIONS[_k] = _search_fixed

FIXES = ['CrossHair relib._search corrected to try the empty match at end of string (engine/chfix.py)']


# 2. opcode_intercept: `concrete_list[sym_a:sym_b]` is modelled as a lazy SliceView over the LIVE list object, wrapped in a
#    SymbolicList. Python copies into a real list. Code such as `asts = body[start:stop]; del body[start:stop]; asts[-1]`
#    (pfst's _cut_or_copy_asts) then sees the view change under its feet, and the SymbolicList object ends up stored inside
#    C-level ast nodes. Fixed: for a CONCRETE list the symbolic bounds are realised and the native slice is taken (the bounds
#    have been clipped to 0..len by then, so this is a finite case split, and the result is a genuine list).
from crosshair import opcode_intercept as _oi          # noqa: E402
from crosshair.libimpl.builtinslib import SymbolicInt as _SymbolicInt   # noqa: E402
from crosshair.tracers import frame_stack_read as _fsr, frame_stack_write as _fsw  # noqa: E402

_orig_subscr_trace = _oi.SymbolicSubscriptInterceptor.trace_op
_orig_slice_trace = _oi.SymbolicSliceInterceptor.trace_op


def _subscr_trace(self, frame, codeobj, codenum):
    if codenum == _oi.BINARY_OP and _oi.frame_op_arg(frame) != 26:
        return
    key = _fsr(frame, -1)
    container = _fsr(frame, -2)
    if isinstance(key, slice) and type(container) is list:
        step = key.step
        if not isinstance(step, _oi.CrossHairValue) and step in (None, 1):
            if isinstance(key.start, _SymbolicInt) or isinstance(key.stop, _SymbolicInt):
                _fsw(frame, -1, slice(realize(key.start), realize(key.stop), step))
                return
    return _orig_subscr_trace(self, frame, codeobj, codenum)


def _slice_trace(self, frame, codeobj, codenum, _concrete_index_types=(int, float, str)):
    a = _fsr(frame, -1)
    b = _fsr(frame, -2)
    if isinstance(a, _SymbolicInt) or isinstance(b, _SymbolicInt):
        container = _fsr(frame, -3)
        if type(container) is list:
            if isinstance(a, _SymbolicInt):
                _fsw(frame, -1, realize(a))
            if isinstance(b, _SymbolicInt):
                _fsw(frame, -2, realize(b))
            return
    return _orig_slice_trace(self, frame, codeobj, codenum)


_oi.SymbolicSubscriptInterceptor.trace_op = _subscr_trace
_oi.SymbolicSliceInterceptor.trace_op = _slice_trace
FIXES.append('CrossHair opcode_intercept: concrete_list[sym:sym] realises the (already clipped) bounds and takes a real list slice instead of a lazy view of the live list (engine/chfix.py)')
