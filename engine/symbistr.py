"""CrossHair plugin: keep `bistr` symbolic instead of realizing at str-subclass construction."""
import crosshair.core_and_libs  # noqa: F401  (its import resets all registrations: must happen BEFORE ours)
from crosshair import register_patch, NoTracing, ResumedTracing
from crosshair.libimpl.builtinslib import LazyIntSymbolicStr, AnySymbolicStr
from fst.astutil import bistr

class SymBistr(LazyIntSymbolicStr):
    def __ch_pytype__(self):
        return bistr
    # real methods of bistr, executed on the symbolic self
    lenbytes = bistr.lenbytes
    _make_array = staticmethod(bistr._make_array)
    _i2i_same = staticmethod(bistr._i2i_same)
    _c2b_lookup = bistr._c2b_lookup
    _b2c_lookup = bistr._b2c_lookup
    c2b = bistr.c2b
    b2c = bistr.b2c

_orig = bistr
def _bistr(s):
    with NoTracing():
        if isinstance(s, SymBistr):
            return s
        if isinstance(s, LazyIntSymbolicStr):
            return SymBistr(s._codepoints)
    return _orig(s)

register_patch(bistr, _bistr)
