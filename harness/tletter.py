"""Shape-T harness family "symbolic re-lettering": all of Unicode at marked positions of a carrier.

A carrier is written with distinct 2-byte marker characters (¡ ¢ £ ¤ ¥ ¦, U+00A1..) placed ONLY inside string literals and
comments. Replacing marker i by an arbitrary code point x_i >= U+0080 (no surrogates) leaves the token structure
unchanged, so CPython's parse of the re-lettered text is the parse of the marker text with every byte offset after a
marker on its line shifted by (utf8_width(x_i) - 2) and string values re-lettered — a fact about CPython's UTF-8 column
convention that is re-validated concretely at the sampled leaves of every run (`o_parse` in concrete mode).

Harness: (1) run an operation script with pfst on the concrete marker text and judge that result with CPython
(O-parse); (2) build, WITHOUT parsing, the same tree over symbolic text (`chr(x_i)` with x_i symbolic ints) and run the
same script with the real pfst code under the symbolic tracer; (3) assert, symbolically, that the resulting source lines
and EVERY node position are the re-lettering of (1). No value is realised on a path, so exhausting the path tree is a
statement about every code point (all byte widths, Unicode whitespace/line separators, combining marks, ...).
This is where character-vs-byte column confusions surface: they are invisible on ASCII and on most hand-picked samples.
"""
import ast
import inspect

from engine import symbistr  # noqa: F401
from engine.h import Cell, assume, check, cover, okcp, w8, fail
from harness.pcommon import in_sym, untraced, reset_globals, o_parse, dump

from fst import FST

MARKS = '¡¢£¤¥¦'


class Lettered:
    def __init__(self, src: str, mode: str = 'exec', extra: str = ''):
        self.src = src
        self.mode = mode
        self.marks = sorted({c for c in src + extra if c in MARKS}, key=MARKS.index)
        assert self.marks == list(MARKS[:len(self.marks)]), 'use markers in order ¡ ¢ £ ...'
        self.k = len(self.marks)
        ast.parse(src)

    # -- re-lettering of text and byte offsets ----------------------------------------------------------------------
    def text(self, line: str, xs):
        out = ''
        seg = ''
        for ch in line:
            if ch in MARKS:
                out = out + seg + chr(xs[MARKS.index(ch)])
                seg = ''
            else:
                seg += ch
        return out + seg

    def boff(self, line: str, b: int, xs):
        """byte offset b on concrete marker line -> byte offset on the re-lettered line"""
        d = 0
        pos = 0
        for ch in line:
            if pos >= b:
                break
            if ch in MARKS:
                d = d + (w8(xs[MARKS.index(ch)]) - 2)
            pos += len(ch.encode())
        return b + d

    def build(self, xs):
        """tree over symbolic text, no parse involved"""
        g = FST(self.src, self.mode)
        lines = [str(l) for l in g._lines]
        t = ast.parse(self.src, mode=self.mode) if self.mode in ('exec', 'eval') else None
        for n in ast.walk(t):
            if hasattr(n, 'end_col_offset'):
                n.col_offset = self.boff(lines[n.lineno - 1], n.col_offset, xs)
                n.end_col_offset = self.boff(lines[n.end_lineno - 1], n.end_col_offset, xs)
            if isinstance(n, ast.Constant) and isinstance(n.value, str) and any(c in MARKS for c in n.value):
                n.value = self.text(n.value, xs)
        f = FST(t, [self.text(l, xs) for l in lines], None, indent=g.indent)
        return f


def positions(a):
    return [(type(n).__name__, n.lineno, n.col_offset, n.end_lineno, n.end_col_offset) for n in ast.walk(a) if hasattr(n, 'end_col_offset')]


def make_letter_fn(name: str, src: str, script, queries=None, validate=None, extra='', pre=None):
    """script(root) performs edits (same code for the marker run and the symbolic run) and may return a root to judge
    (default: the root it was given). queries(root) -> list of (label, value) read-only answers compared as re-lettered."""
    L = Lettered(src, extra=extra)
    with_q = queries is not None
    script2 = len(inspect.signature(script).parameters) >= 2     # script(root, T): T re-letters a marker string used as an ARGUMENT (identity in the marker run)

    # (1) concrete marker run, judged by CPython — deterministic, computed on first use (inside the cell, so that a
    #     violation on the marker text itself is reported and replayed like any other)
    ref = {}

    def marker_run():
        if 'lines' not in ref:
            with untraced():
                g = FST(src, 'exec')
                reset_globals()
                g2 = (script(g, lambda m_: m_) if script2 else script(g)) or g
                o_parse(g2, f'letter.{name}.marker_run', 'exec' if isinstance(g2.a, ast.Module) else 'stmt' if isinstance(g2.a, ast.stmt) else 'eval')
                if validate is not None:
                    validate(g2, f'letter.{name}.marker_run')     # independent (CPython) judgement of the marker answers
                ref['pos'] = positions(g2.a)
                ref['q'] = queries(g2) if with_q else []
                ref['lines'] = [str(l) for l in g2._lines]
        return ref['lines'], ref['pos'], ref['q']

    def fn(*xs):
        for x in xs:
            assume(okcp(x) and x >= 0x80)
        if pre is not None:
            assume(pre(xs))
        ref_lines, ref_pos, ref_q = marker_run()
        f = L.build(xs)
        f2 = (script(f, lambda m_: L.text(m_, xs)) if script2 else script(f)) or f
        got_lines = f2._lines
        check(len(got_lines) == len(ref_lines), f'letter.{name}.line_count', (len(got_lines), len(ref_lines)))
        for i, rl in enumerate(ref_lines):
            check(got_lines[i] == L.text(rl, xs), f'letter.{name}.text_differs', (i, rl))
        gp = positions(f2.a)
        check(len(gp) == len(ref_pos), f'letter.{name}.node_count', (len(gp), len(ref_pos)))
        for (gt, gl, gc, gel, gec), (rt, rl_, rc, rel, rec) in zip(gp, ref_pos):
            check(gt == rt and gl == rl_ and gel == rel, f'letter.{name}.structure', (gt, rt))
            check(gc == L.boff(ref_lines[rl_ - 1], rc, xs), f'letter.{name}.col_offset_wrong', (rt, rl_, rc))
            check(gec == L.boff(ref_lines[rel - 1], rec, xs), f'letter.{name}.end_col_offset_wrong', (rt, rel, rec))
        if with_q:
            gq = queries(f2)
            check(len(gq) == len(ref_q), f'letter.{name}.query_count')
            for (lab, gv), (_lab, rv, kind) in zip(gq, [(a, b, _kind(b)) for a, b in ref_q]):
                _cmp_query(L, name, lab, gv, rv, kind, ref_lines, xs)
        if not in_sym():
            # concrete mode (sample / replay): CPython itself must agree with the re-lettering claim
            o_parse(f2, f'letter.{name}.relettered', 'exec' if isinstance(f2.a, ast.Module) else 'stmt' if isinstance(f2.a, ast.stmt) else 'eval')
        cover('ok')
    fn.__signature__ = inspect.Signature([inspect.Parameter(f'x{i}', inspect.Parameter.POSITIONAL_OR_KEYWORD, annotation=int) for i in range(L.k)])
    fn.__name__ = f'letter_{name}'
    return fn, L


def _kind(v):
    return 'bytepos' if isinstance(v, tuple) and len(v) == 3 and v[0] == 'B' else 'text' if isinstance(v, str) else 'plain'


def _cmp_query(L, name, lab, gv, rv, kind, ref_lines, xs):
    if kind == 'bytepos':       # ('B', lineno(1-based), byte offset)
        check(gv[1] == rv[1] and gv[2] == L.boff(ref_lines[rv[1] - 1], rv[2], xs), f'letter.{name}.query_bytepos.{lab}', rv)
    elif kind == 'text':
        check(gv == L.text(rv, xs), f'letter.{name}.query_text.{lab}', rv)
    else:
        check(gv == rv, f'letter.{name}.query.{lab}', (rv,))


FN = ['fst.astutil.bistr.c2b', 'fst.astutil.bistr.b2c', 'fst.fst_core._put_src', 'fst.fst_core._params_offset', 'fst.fst_core._offset',
      'fst.fst_put_one._put_one', 'fst.fst_put_one._make_exprlike_fst', 'fst.fst_put_slice._put_slice', 'fst.fst_core._Modifying.success',
      'fst.fst.FST.loc', 'fst.fst.FST.pars']


def letter_cell(prefix, name, src, script, queries=None, tier='quick', budget=400, validate=None, extra='', pre=None):
    fn, L = make_letter_fn(name, src, script, queries, validate, extra, pre)
    return Cell(f'{prefix}.letter[{name}]', fn, 'T', FN,
                f'carrier {src!r}: each of the {L.k} marker characters ranges over EVERY Unicode scalar value >= U+0080 (all UTF-8 widths 2-4); '
                'fixed operation script; source text and all node positions compared symbolically',
                tier=tier, budget=budget, per_path=90,
                stubs=['bistr(...) construction bypassed (C str.__new__); c2b/b2c/lenbytes are pfst\'s own method bodies on the symbolic string'],
                assumptions=['markers sit only inside string literals / comments, so re-lettering cannot change the token structure; '
                             'CPython byte offsets of the re-lettered text = marker-text offsets shifted by the width differences (validated at sampled leaves)'],
                out='ASCII substitutions (could close a string / start a comment); shapes other than the carrier; operation scripts other than the one listed',
                reset=reset_globals)
