"""C13 — reconcile() returns a valid tree that equals the externally edited AST.

P1: carriers x a vocabulary of pure-AST mutations; the mutation SCRIPT is symbolic: (node ordinal k1, op1, node ordinal k2, op2)
    over Z^4 with inapplicable combinations assumed away, 1 or 2 mark/reconcile rounds. Oracle: the result re-parsed by CPython
    equals the result tree incl. positions (C01) and is structurally equal to the edited AST; with the empty script the source
    is identical; top-level statements not containing a mutated node keep their exact text, comments included.
    The script space is finite; the solver's role is covering it (incl. out-of-range ordinals) without hand enumeration.
"""
import ast
import copy

from engine.h import Cell, assume, check, cover, fail
from harness import pcommon as pc

from fst import FST

PROPERTY = 'C13'
THOROUGH_SCALE = 2.0
THOROUGH_STRIDE = 2        # thorough tier = all quick cells + every 2th thorough-only cell (sized to run end-to-end; '--cells' reaches the others)

SRCS = {
    'small': 'x = f(a, b)  # cx\n\n# lead y\ny = [1, 2,  # two\n     3]\nif x:  # h\n    z = x + y  # cz\nelse:\n    z = -x\nprint(z)  # end\n',
    'defs': '@dec\ndef g(p, q=1):  # sig\n    """doc"""\n    r = p * q  # m\n    return r\n\n\nclass K(B):\n    v = g(1)  # cv\n    w: int = 2\n',
    'ifelse2': 'if a:  # h\n    b = 1  # cb\n    c = 2\nelse:\n    d = 3  # cd\n    e = 4\nfor i in z:\n    f = 5\n    g = 6\nelse:\n    h = 7\n    j = 8\nk = 9\n',
    'prims': 'from ..m import n as o\nasync def f(p, *, q=u"t"):\n    r = [x async for x in y if x]\n    return r.s(k=q)  # c\nglobal g\n',
    'callstar': 'r = f(a=b, *c)  # cr\nclass K(x, k=1, *d): pass\ns = g(e, m=n, *o, p=q)\n',
    'cmts': '# pre a\na = 1  # a\n# pre b\nb = 2  # b',
    'flow': 'for i in range(3):  # loop\n    if i:\n        continue  # c\n    t = (i,\n         i + 1)\nwhile t: t = t[1:]  # shrink\nwith a as b, c:\n    pass  # body\n',
}
OPS = ['none', 'cross_fields_after', 'cross_fields_into_body', 'cross_fields_foreign', 'cross_fields_body0_is_orelse0', 'expr_new', 'expr_foreign', 'stmt_delete', 'stmt_insert_new', 'stmt_swap_next', 'stmt_duplicate', 'rename', 'const_change', 'op_change', 'stmt_move_to_end',
       'expr_swap_sibling', 'const_same_value_other_type', 'stmt_foreign_popped', 'prim_change', 'kwarg_to_doublestar', 'starred_to_plain']
OTHER = 'o = other(1) + thing\nif ot:\n    oa = 1  # oa\n    ob = 2  # ob\nelse:\n    oc = 3  # oc\n    od = 4  # od\n'


def _stmts(tree):
    return [n for n in ast.walk(tree) if isinstance(n, ast.stmt)]


def _exprs(tree):
    out = []
    for n in ast.walk(tree):
        if isinstance(n, ast.expr) and isinstance(getattr(n, 'ctx', ast.Load()), ast.Load) and not isinstance(n, (ast.Slice, ast.Starred, ast.JoinedStr, ast.FormattedValue)):
            out.append(n)
    return out


def _prim_pairs(tree):
    pairs = []
    for n_ in ast.walk(tree):
        for f_ in n_._fields:
            v_ = getattr(n_, f_, None)
            if isinstance(n_, ast.Constant) and f_ == 'value' and not isinstance(v_, (int, str)):
                continue
            if (isinstance(v_, (str, int)) or (v_ is None and f_ in ('kind', 'asname', 'level'))) and not isinstance(v_, bool) or (isinstance(v_, list) and v_ and all(isinstance(e_, str) for e_ in v_)):
                pairs.append((n_, f_))
    return pairs


def _where(tree, node):
    for p in ast.walk(tree):
        for name, val in ast.iter_fields(p):
            if val is node:
                return p, name, None
            if isinstance(val, list):
                for i, v in enumerate(val):
                    if v is node:
                        return p, name, i
    return None, None, None


def _apply(tree, op, k, other_tree):
    """one pure-AST mutation; returns the set of top-level statements touched (by identity) or None if not applicable"""
    def top_of(n):
        for s in tree.body:
            for m in ast.walk(s):
                if m is n:
                    return s
        return None
    if op == 'none':
        return set()
    if op in ('expr_new', 'expr_foreign', 'rename', 'const_change', 'op_change', 'expr_swap_sibling', 'const_same_value_other_type'):
        ex = _exprs(tree)
        if not (0 <= k < len(ex)):
            return None
        n = ex[k]
        p, name, idx = _where(tree, n)
        if p is None:
            return None
        touched = {id(top_of(n))}
        if op == 'expr_new':
            new = ast.Call(func=ast.Name(id='NEW', ctx=ast.Load()), args=[ast.Constant(value=7)], keywords=[])
        elif op == 'expr_foreign':
            new = other_tree.body[0].value
        elif op == 'rename':
            if not isinstance(n, ast.Name):
                return None
            n.id = n.id + '_renamed'
            return touched
        elif op == 'const_change':
            if not (isinstance(n, ast.Constant) and isinstance(n.value, int)):
                return None
            n.value = n.value + 100
            return touched
        elif op == 'const_same_value_other_type':
            # 1 -> True, 2 -> 2.0: equal under ==, a different constant for Python
            if not (isinstance(n, ast.Constant) and type(n.value) is int):
                return None
            n.value = bool(n.value) if n.value in (0, 1) else float(n.value)
            return touched
        elif op == 'op_change':
            if not isinstance(n, ast.BinOp):
                return None
            n.op = ast.Mod()
            return touched
        else:
            if idx is None or idx + 1 >= len(getattr(p, name)) or not isinstance(getattr(p, name)[idx + 1], ast.expr) or isinstance(getattr(p, name)[idx + 1], ast.Starred):
                return None
            lst = getattr(p, name)
            lst[idx], lst[idx + 1] = lst[idx + 1], lst[idx]
            return touched
        if isinstance(p, (ast.keyword,)) or (isinstance(p, ast.Call) and name == 'func' and False):
            pass
        if idx is None:
            setattr(p, name, new)
        else:
            getattr(p, name)[idx] = new
        return touched
    if op in ('kwarg_to_doublestar', 'starred_to_plain'):
        # edits of a call / class header whose local replay is not possible where the node stands (a ** cannot precede a *, a plain positional cannot follow a keyword)
        cands = []
        for n_ in ast.walk(tree):
            if isinstance(n_, (ast.Call, ast.ClassDef)):
                if op == 'kwarg_to_doublestar':
                    cands += [(n_, kw_) for kw_ in n_.keywords if kw_.arg is not None]
                else:
                    lst_ = n_.args if isinstance(n_, ast.Call) else n_.bases
                    cands += [(n_, lst_, i_) for i_, a_ in enumerate(lst_) if isinstance(a_, ast.Starred)]
        if not (0 <= k < len(cands)):
            return None
        if op == 'kwarg_to_doublestar':
            cands[k][1].arg = None
        else:
            _n, lst_, i_ = cands[k]
            lst_[i_] = lst_[i_].value
        return {id(top_of(cands[k][0]) or cands[k][0])}
    if op == 'prim_change':
        # k-th (node, primitive field) pair of the tree in ast.walk order: identifiers, import level, is_async, Constant.kind / value, Global names
        pairs = _prim_pairs(tree)
        if not (0 <= k < len(pairs)):
            return None
        n_, f_ = pairs[k]
        v_ = getattr(n_, f_)
        if f_ == 'is_async':
            new_ = 0 if v_ else 1
        elif f_ == 'kind':
            new_ = None if v_ else 'u'
        elif f_ == 'level':
            new_ = (v_ or 0) + 1
        elif isinstance(v_, list):
            new_ = v_ + ['added']
        elif isinstance(v_, int):
            new_ = v_ + 100
        elif v_ is None:
            new_ = 'newname'
        elif f_ == 'value':
            new_ = v_ + 'x'
        else:
            new_ = v_ + '_r'
        setattr(n_, f_, new_)
        return {id(top_of(n_) or n_)}
    st = _stmts(tree)
    if not (0 <= k < len(st)):
        return None
    n = st[k]
    if op == 'cross_fields_foreign':
        # statements taken from two different list fields of ONE block statement of another tree, put next to each other
        oif = other_tree.body[1]
        pp, pname, pidx = _where(tree, n)
        if pp is None or pidx is None:
            return None
        getattr(pp, pname)[pidx:pidx] = [oif.body[0], oif.orelse[1]]
        return {id(top_of(n) or n)}
    if op == 'stmt_foreign_popped':
        # a statement REMOVED from another tree's list (so that tree's remaining statements shifted down) and inserted here
        oif = other_tree.body[1]
        pp, pname, pidx = _where(tree, n)
        if pp is None or pidx is None or len(oif.body) < 2:
            return None
        getattr(pp, pname).insert(pidx, oif.body.pop(0))
        return {id(top_of(n) or n)}
    if op == 'cross_fields_body0_is_orelse0':
        if not (isinstance(n, (ast.If, ast.For, ast.While)) and len(n.body) >= 2 and len(n.orelse) >= 1):
            return None
        n.body[0] = n.orelse[0]
        return {id(top_of(n) or n)}
    if op in ('cross_fields_after', 'cross_fields_into_body'):
        # statements of DIFFERENT list fields of one block statement put next to each other: P.body[j], P.orelse[j + 1]
        if not (isinstance(n, (ast.If, ast.For, ast.While)) and len(n.body) >= 1 and len(n.orelse) >= 2):
            return None
        pp, pname, pidx = _where(tree, n)
        if pp is None or pidx is None:
            return None
        pair = [n.body[0], n.orelse[1]]
        if op == 'cross_fields_after':
            lst_ = getattr(pp, pname)
            lst_[pidx + 1:pidx + 1] = pair           # the same objects now also follow the block (duplication is allowed)
        else:
            n.body[:] = pair
        return {id(top_of(n) or n)} | {id(s_) for s_ in tree.body}
    p, name, idx = _where(tree, n)
    if p is None or idx is None:
        return None
    lst = getattr(p, name)
    touched = {id(top_of(n) or n)}
    if op == 'stmt_delete':
        if len(lst) < 2:
            return None
        del lst[idx]
    elif op == 'stmt_insert_new':
        lst.insert(idx, ast.Expr(value=ast.Call(func=ast.Name(id='inserted', ctx=ast.Load()), args=[], keywords=[])))
    elif op == 'stmt_swap_next':
        if idx + 1 >= len(lst):
            return None
        touched.add(id(top_of(lst[idx + 1]) or lst[idx + 1]))
        lst[idx], lst[idx + 1] = lst[idx + 1], lst[idx]
    elif op == 'stmt_duplicate':
        lst.insert(idx, copy.deepcopy(n) if False else n)       # the SAME object twice, as a user's ast.NodeTransformer may produce
    elif op == 'stmt_move_to_end':
        if p is tree or idx is None:
            return None
        del lst[idx]
        if not lst:
            lst.append(ast.Pass())
        tree.body.append(n)
        return touched | {id(s) for s in tree.body[-1:]}
    else:
        return None
    if p is tree:
        return touched
    return touched


QUICK_O2 = ('none', 'stmt_delete', 'stmt_insert_new', 'rename', 'const_change', 'expr_new', 'stmt_swap_next', 'prim_change', 'expr_foreign', 'stmt_duplicate')


def _mk(key, rounds, o1, quick=False):
    src = SRCS[key]
    _t = ast.parse(src)
    NS, NE = len(_stmts(_t)) + 2, len(_exprs(_t)) + 4      # ordinals beyond the node counts (plus what one mutation can add) are inapplicable anyway
    NP = len(_prim_pairs(_t)) + 2
    EXPR_OPS = ('expr_new', 'expr_foreign', 'rename', 'const_change', 'op_change', 'expr_swap_sibling', 'const_same_value_other_type')

    def fn(k1: int, k2: int, o2: int):
        assume(0 <= o2 < len(OPS) and -1 <= k1 <= 40 and -1 <= k2 <= 40)
        op1, op2 = OPS[o1], OPS[pc.pin(o2, 0, len(OPS) - 1)]
        if quick:
            assume(op2 in QUICK_O2)      # the quick tier pairs the first mutation with 10 of the 21 kinds as second mutation, the thorough tier with all
        assume(k1 < (NE if op1 in EXPR_OPS else NP if op1 == 'prim_change' else NS) and k2 < (NE if op2 in EXPR_OPS else NP if op2 == 'prim_change' else NS))
        kk1, kk2 = pc.pin(k1, -1, 40), pc.pin(k2, -1, 40)
        if op1 == 'none':
            assume(kk1 == 0)
        if op2 == 'none':
            assume(kk2 == 0)
        assume(not (op1 == 'expr_foreign' and op2 == 'expr_foreign'))     # the same foreign node twice could be put inside itself (a cycle, not an AST)
        with pc.untraced():
            root = FST(src, 'exec')
            pc.reset_globals()
            other = FST(OTHER, 'exec')
        sig = f'reconcile.{key}.{op1}.{op2}'
        cur = root
        for rnd in range(rounds):
            cur.mark()
            with pc.untraced():
                tree = cur.a
                orig_tops = list(tree.body)
                orig_text = {}
                slines = cur.src.split('\n')
                for s in orig_tops:
                    first = min([s.lineno] + [d.lineno for d in getattr(s, 'decorator_list', [])])
                    orig_text[id(s)] = '\n'.join(slines[first - 1:s.end_lineno])
                t1 = _apply(tree, op1 if rnd == 0 else 'none', kk1, other.a)
                assume(t1 is not None)
                t2 = _apply(tree, op2 if rnd == 0 else op1, kk2 if rnd == 0 else kk1, other.a) if (rnd == 0 or rounds == 2) else set()
                if rnd == 1 and t2 is None:
                    t2 = set()
                assume(t2 is not None)
                touched = t1 | t2
                edited = ast.dump(tree)
                src_before = cur.src
                # the edited AST must itself be valid Python, otherwise there is nothing to reconcile to
                try:
                    valid = ast.dump(ast.parse(ast.unparse(tree))) == edited
                except Exception:   # noqa: BLE001
                    valid = False
                assume(valid)
            try:
                new = cur.reconcile()
            except pc.EXPECTED_RAISES + (AssertionError, AttributeError, TypeError, KeyError) as ex:
                fail('reconcile.raised_on_valid_edited_ast', (key, op1, kk1, op2, kk2, type(ex).__name__, str(ex)[:200]))
            with pc.untraced():
                pc.o_parse(new, sig)
                got = ast.dump(new.a)
                check(got == edited, 'reconcile.result_differs_from_edited_ast', (key, op1, kk1, op2, kk2, pc.R(new.src), pc._first_diff(edited, got)))
                nsrc = pc.R(new.src)
                if not touched:
                    check(nsrc == src_before, 'reconcile.source_changed_without_any_mutation', (key, nsrc))
                if op1 == 'cross_fields_body0_is_orelse0' and op2 == 'none':
                    # inside the touched block: the statement at body[1] was not touched and keeps its line incl. comment
                    blk = _stmts(tree)[kk1] if 0 <= kk1 < len(_stmts(tree)) else None
                if not ({op1, op2} & {'stmt_duplicate', 'cross_fields_after', 'cross_fields_into_body', 'cross_fields_body0_is_orelse0', 'cross_fields_foreign', 'stmt_foreign_popped', 'expr_foreign'}):
                    # no mutation here copies a statement: no comment of the marked source may appear more often than before
                    cb, ca = pc.comments(src_before if src_before.endswith('\n') else src_before + '\n'), pc.comments(nsrc if nsrc.endswith('\n') else nsrc + '\n')
                    if cb is not None and ca is not None:
                        dup = sorted({c_ for c_ in ca if ca.count(c_) > cb.count(c_)})
                        check(not dup, f'reconcile.comment_duplicated:{key}:{op1}+{op2}', (key, op1, kk1, op2, kk2, dup, nsrc))
                for s in orig_tops:
                    if id(s) not in touched and any(s is b for b in tree.body):
                        check(orig_text[id(s)] in nsrc, 'reconcile.untouched_statement_text_changed', (key, op1, kk1, op2, kk2, orig_text[id(s)], nsrc))
                pc.links_ok(new, sig)
            cur = new
            other = FST(OTHER, 'exec') if not pc.in_sym() else other
        cover('ok')
    return fn


FNR = ['fst.fst.FST.mark', 'fst.fst.FST.reconcile', 'fst.reconcile.Reconcile.recurse_node', 'fst.reconcile.Reconcile.recurse_children', 'fst.reconcile.Reconcile.recurse_slice']
CELLS = []
for _k in SRCS:
    for _r in (1, 2):
        for _o1 in range(len(OPS)):
            _isq = ((_k, _r) == ('small', 1) and OPS[_o1] in ('none', 'expr_new', 'stmt_delete', 'stmt_swap_next', 'expr_foreign', 'rename', 'const_same_value_other_type', 'stmt_foreign_popped')) or ((_k, _r) == ('ifelse2', 1) and OPS[_o1].startswith('cross_fields')) or ((_k, _r) == ('prims', 1) and OPS[_o1] in ('prim_change', 'none')) or ((_k, _r) == ('cmts', 1) and OPS[_o1] in ('stmt_insert_new', 'stmt_delete', 'stmt_swap_next')) or ((_k, _r) == ('callstar', 1) and OPS[_o1] in ('kwarg_to_doublestar', 'starred_to_plain'))
            CELLS.append(Cell(f'P1.reconcile[{_k},rounds={_r},first={OPS[_o1]}]', _mk(_k, _r, _o1, _isq), 'P', FNR,
                              f'carrier {_k} ({len(SRCS[_k].splitlines())} lines); script: first mutation {OPS[_o1]} at node ordinal k1, second mutation (any of {len(OPS)} kinds) at k2; '
                              f'ordinals symbolic in -1..40 (finite); {_r} mark/reconcile round(s)',
                              tier='quick' if _isq else 'thorough',
                              budget=900, per_path=90, out='mutation histories > 2 ops per round; programs outside the carriers', reset=pc.reset_globals))
            if _isq:
                CELLS.append(Cell(f'P1.reconcile[{_k},rounds={_r},first={OPS[_o1]},all_second_ops]', _mk(_k, _r, _o1), 'P', FNR,
                                  f'as the quick cell of the same name, with the second mutation ranging over all {len(OPS)} kinds', tier='thorough', budget=900, per_path=90, reset=pc.reset_globals))
