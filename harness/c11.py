"""C11 — whitespace-only source edits in offset mode keep every node on its text."""
from harness import toffset

PROPERTY = 'C11'
THOROUGH_SCALE = 2.0
CELLS = toffset.putsrc_offset_cells('T1', False, ('tuple', 'deco2', 'call', 'binop', 'call3kw', 'call3st'))


# ---------------------------------------------------------------------------------------------------------------- P1
import ast
import io
import tokenize

from engine.h import Cell, assume, check, cover, fail
from harness import pcommon as pc
from fst import FST

P_SRCS = {
    'expr': 'x = f(a, (b) + c)  # k\ny = [d , e]\n',
    'uni': 'ü = g("é", ñ [ 0 ])  # ç\nz = -ü\n',
    'block': 'if a :  # h\n    b = ( 1,\n          2 )\nelse :\n    c\n',
    'deco': '@ d1\n@d2 ( q )\ndef f ( a , b = 1 ) :\n    return a\n',
    'fstr_dbg': 'print(f\'größe: {w * h = } { ü [ 0 ] = !r}\')\n',
    'fstr': 'x = f\'{ {1, 2}} { a + b } {d [ 0 ] !r:>{ w }}\'\ny = f"é{ ü . v }{ {k : 1} }"\n',
    'misc': 'r = lambda p , * q : p if q else { 1 : 2 , ** s }\nt = a . b [ 1 : 2 ]\n',
}


_FSTR_TEXT = {getattr(tokenize, n_) for n_ in ('FSTRING_START', 'FSTRING_MIDDLE', 'FSTRING_END') if hasattr(tokenize, n_)}


def _gaps(src):
    """(line0, col_start, col_end) of every inter-token gap on one line, in characters (tokenize reports characters)"""
    out = []
    prev = None
    for t in tokenize.generate_tokens(io.StringIO(src).readline):
        if t.type in (tokenize.NL, tokenize.NEWLINE, tokenize.INDENT, tokenize.DEDENT, tokenize.ENDMARKER, tokenize.COMMENT):
            if t.type == tokenize.COMMENT:
                prev = None
            if t.type in (tokenize.NL, tokenize.NEWLINE):
                prev = None
            continue
        if prev is not None and prev.end[0] == t.start[0] and prev.end[1] <= t.start[1] and not ({prev.type, t.type} & _FSTR_TEXT):     # next to the literal text of an f-string a blank is content, not trivia
            out.append((t.start[0] - 1, prev.end[1], t.start[1]))
        prev = t
    return out


def _no_dbg(d):
    import re
    return re.sub(r"Constant\(value='[^']*= *'\)", 'DBG', d)


def _mk_gap(key):
    src = P_SRCS[key]
    gaps = _gaps(src)
    lines = src.split('\n')

    def fn(g: int, a: int, b: int, k: int):
        assume(0 <= g < len(gaps) and 0 <= k <= 3)
        gi = pc.pin(g, 0, len(gaps) - 1)
        kk = pc.pin(k, 0, 3)
        ln, c0, c1 = gaps[gi]
        assume(c0 <= a <= b <= c1)
        aa, bb = pc.pin(a, c0, c1), pc.pin(b, c0, c1)
        with pc.untraced():
            root = FST(src, 'exec')
            pc.reset_globals()
            # innermost node STRICTLY containing the spot, from CPython's own positions (bytes -> characters)
            t = ast.parse(src)
            best = None
            for n, m in zip(ast.walk(t), ast.walk(root.a)):
                if not hasattr(n, 'end_col_offset'):
                    continue
                s_ = (n.lineno - 1, len(lines[n.lineno - 1].encode()[:n.col_offset].decode()))
                e_ = (n.end_lineno - 1, len(lines[n.end_lineno - 1].encode()[:n.end_col_offset].decode()))
                if s_ < (ln, aa) and (ln, bb) < e_:
                    if best is None or (s_, tuple(-x for x in e_)) > best[0]:
                        best = ((s_, tuple(-x for x in e_)), m)
            new_src = '\n'.join(lines[:ln] + [lines[ln][:aa] + ' ' * kk + lines[ln][bb:]] + lines[ln + 1:])
            try:
                ast.parse(new_src)
                # same node structure; the TEXT constant of a self-documenting f-string field (f'{a = }') legitimately follows the whitespace
                still_valid = [type(n_).__name__ for n_ in ast.walk(ast.parse(new_src))] == [type(n_).__name__ for n_ in ast.walk(t)] and \
                    _no_dbg(ast.dump(ast.parse(new_src))) == _no_dbg(ast.dump(t))
            except SyntaxError:
                still_valid = False
        assume(best is not None and still_valid)      # e.g. deleting the blank in 'p if q' merges tokens: not a trivia-preserving edit
        node = best[1].f
        try:
            node.put_src(' ' * kk, ln, a, ln, b, 'offset')
        except pc.EXPECTED_RAISES as ex:
            fail('put_src_offset.refused', (key, (ln, aa, bb, kk), type(node.a).__name__, type(ex).__name__, str(ex)[:150]))
        with pc.untraced():
            check(pc.R(root.src) == new_src, 'put_src_offset.source_is_not_the_splice', (pc.R(root.src), new_src))
            pc.o_parse(root, f'put_src_offset.{key}')
        cover('ok')
    return fn


for _k in P_SRCS:
    CELLS.append(Cell(f'P1.put_src_offset[{_k}]', _mk_gap(_k), 'P', ['fst.fst.FST.put_src', 'fst.fst_core._put_src', 'fst.fst_core._params_offset', 'fst.fst_core._offset', 'fst.fst_misc.clip_src_loc'],
                      f'carrier {_k}: every inter-token gap found by tokenize ({len(_gaps(P_SRCS[_k]))}), symbolic sub-range [a, b] of the gap replaced by k in 0..3 blanks, called on the innermost node strictly containing the spot '
                      '(computed from CPython positions); result must be the splice and re-parse to the live tree incl. positions (finite choice + pinned columns)',
                      tier='quick' if _k in ('expr', 'uni', 'deco', 'fstr', 'fstr_dbg') else 'thorough', budget=600, per_path=60, out='multi-line replacements; comments as replacement text', reset=pc.reset_globals))
