"""C11 — whitespace-only source edits in offset mode keep every node on its text."""
from harness import toffset

PROPERTY = 'C11'
THOROUGH_SCALE = 2.0
CELLS = toffset.putsrc_offset_cells('T1', False, ('tuple', 'deco2', 'call', 'binop'))
