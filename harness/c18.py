"""C18 — substitution rewrites exactly the matched nodes with the filled-in template.

P1: carriers x (pattern, template) rows with single-node, slice and whole-match captures; SYMBOLIC: count over Z (<= 0 means all),
    nested, on in {enter, leave}. Reference: a 40-line transformer doing the same replacement on a pure AST (outermost first in
    walk order, captured nodes re-examined only when nested; bottom-up for on='leave'); the result re-parsed by CPython must
    equal both the live tree (C01) and the reference structure; the returned counts must equal the reference count; comments
    outside substituted nodes survive (tokenize). The integer domain is thin (count) and the rest finite choice: stated as such.
"""
import ast
import copy

from engine.h import Cell, assume, check, cover, fail
from harness import pcommon as pc
from harness.c04 import _toks

from fst import FST
from fst.match import M, MAttribute, MBinOp, MCall, MList, MName, MOR, MQSTAR

PROPERTY = 'C18'
THOROUGH_SCALE = 2.0

SRCS = {
    'calls': 'x = f(f(f(a)), f(b, c))  # cx\ny = [f(d), g(f(e))]\n\n# lead\nz = f(\n    h  # inner\n)\n',
    'names': 'a = a + f(a, k=a)  # c1\ndef g(a, b=a):\n    return [a for a in b if a]  # c2\n',
    'lists': 'v = [1, [2, 3], []] + [4]  # cv\nw = [[5, [6]], 7]\n',
    'nestlists': 'f([[a]], [[[[b]]]], [c])  # cf\ng([[[d]]])\n',
    'callmix': 'r = f(a, k=1, *b)  # cm\ns = h(f(c, *d, m=2), f(e))\n',
    'binops': 'r = (a + b) * c - d  # cr\ns = f(a + b,\n      c ** 2)\n',
}


def _is_f_call1(n):
    return isinstance(n, ast.Call) and isinstance(n.func, ast.Name) and n.func.id == 'f' and len(n.args) == 1 and not n.keywords and not isinstance(n.args[0], ast.Starred)


def _ref_loop(tree, loop):
    """reference for pattern MList(elts=[M(x=...)]) / template '__FST_x' with a loop budget per matched location (0 = until it no longer matches)"""
    n = {'uniq': 0, 'tot': 0}

    def unwrap(node):
        it = 0
        hit = False
        while isinstance(node, ast.List) and len(node.elts) == 1 and not isinstance(node.elts[0], ast.Starred) and (loop <= 0 or it < loop):
            node = node.elts[0]
            it += 1
            hit = True
        if hit:
            n['uniq'] += 1
            n['tot'] += it
        return node, hit

    def visit(node):
        new, hit = unwrap(node)
        if hit:
            return new              # nested=False: what comes out of a substituted location is not searched again
        for name, val in ast.iter_fields(new):
            if isinstance(val, list):
                for i, v in enumerate(val):
                    if isinstance(v, ast.AST):
                        val[i] = visit(v)
            elif isinstance(val, ast.AST):
                setattr(new, name, visit(val))
        return new
    visit(tree)
    return n['uniq'], n['tot']


def p1_loop(loop: int):
    assume(0 <= loop <= 6)
    lp = pc.pin(loop, 0, 6)
    src = SRCS['nestlists']
    with pc.untraced():
        root = FST(src, 'exec')
        pc.reset_globals()
        ref = ast.parse(src)
        ru, rt = _ref_loop(ref, lp)
        exp = ast.dump(ref)
    try:
        with FST.options(**pc.OPTS):
            _r, nu, nt = root.subn(MList(elts=[M(x=...)]), '__FST_x', loop=(True if lp == 0 else lp))
    except pc.EXPECTED_RAISES as ex:
        fail('sub.loop.raised', (lp, type(ex).__name__, str(ex)[:200]))
    with pc.untraced():
        t = pc.o_parse(root, 'sub.loop')
        check(ast.dump(t) == exp, 'sub.loop.result_differs_from_reference', (lp, pc.R(root.src), pc._first_diff(exp, ast.dump(t))))
        check((pc.R(nu), pc.R(nt)) == (ru, rt), 'sub.loop.reported_counts_differ', (lp, (pc.R(nu), pc.R(nt)), (ru, rt)))
    cover('ok')


def p1_loop_ctx(loop: int, cx: bool):
    """the loop re-match uses the same ctx setting as the search: 'start' -> 'q.z' matches again (MAttribute(value=MName('q', ctx=Store()))) only if
    expression contexts are NOT compared"""
    assume(1 <= loop <= 5)
    lp = pc.pin(loop, 1, 5)
    with pc.untraced():
        root = FST('start\n', 'exec')
        pc.reset_globals()
    pat = MOR(MName(id='start'), MAttribute(value=MName(id='q', ctx=ast.Store())))
    try:
        with FST.options(**pc.OPTS):
            _r, nu, nt = root.subn(pat, 'q.z', ctx=cx, loop=lp)
    except pc.EXPECTED_RAISES as ex:
        fail('sub.loop_ctx.raised', (lp, cx, type(ex).__name__, str(ex)[:200]))
    with pc.untraced():
        pc.o_parse(root, 'sub.loop_ctx')
        exp = (1, 1) if cx else (1, lp)       # with ctx=True the Load context of the new 'q' does not match Store: one substitution
        check((pc.R(nu), pc.R(nt)) == exp, 'sub.loop_ctx.rematch_ignores_the_ctx_setting', (lp, cx, (pc.R(nu), pc.R(nt)), exp))
    cover('ok')


ROWS = {
    'call_wrap': (lambda: MCall(func=MName(id='f'), args=[M(x=...)], keywords=[]), 'g(__FST_x)', _is_f_call1,
                  lambda n, sub: ast.Call(func=ast.Name(id='g', ctx=ast.Load()), args=[sub(n.args[0])], keywords=[])),
    'name_attr': (lambda: MName(id='a'), 'b.c', lambda n: isinstance(n, ast.Name) and n.id == 'a',
                  lambda n, sub: ast.Attribute(value=ast.Name(id='b', ctx=ast.Load()), attr='c', ctx=type(n.ctx)())),
    # a pattern holding an expr_context INSTANCE: compared only when ctx=True is passed
    'name_load_inst': (lambda: ast.Name(id='a', ctx=ast.Load()), 'b.c', lambda n, cx=False: isinstance(n, ast.Name) and n.id == 'a' and (not cx or isinstance(n.ctx, ast.Load)),
                       lambda n, sub: ast.Attribute(value=ast.Name(id='b', ctx=ast.Load()), attr='c', ctx=type(n.ctx)())),
    'name_store_inst': (lambda: MName(id='a', ctx=ast.Store()), 'b.c', lambda n, cx=False: isinstance(n, ast.Name) and n.id == 'a' and (not cx or isinstance(n.ctx, ast.Store)),
                        lambda n, sub: ast.Attribute(value=ast.Name(id='b', ctx=ast.Load()), attr='c', ctx=type(n.ctx)())),
    'identity_binop': (lambda: MBinOp(), '__FST_', lambda n: isinstance(n, ast.BinOp), None),
    'str_slot': (lambda: MCall(func=MName(id='f'), args=[M(x=...)], keywords=[]), 'log("got __FST_x!", __FST_x)', _is_f_call1,
                 lambda n, sub: ast.Call(func=ast.Name(id='log', ctx=ast.Load()), args=[ast.Constant(value='got ' + ast.unparse(n.args[0]) + '!'), sub(n.args[0])], keywords=[])),
    # a multi-node capture from the merged, source-ordered _args field (positional and keyword arguments interleaved)
    'args_tail': (lambda: MCall(func=MName(id='f'), _args=[M(first=...), MQSTAR(rest=...)]), 'g(__FST_first, z, __FST_rest)',
                  lambda n: isinstance(n, ast.Call) and isinstance(n.func, ast.Name) and n.func.id == 'f' and len(n.args) + len(n.keywords) >= 1
                  and (not n.keywords or not n.args or (n.args[0].lineno, n.args[0].col_offset) < (n.keywords[0].value.lineno, n.keywords[0].value.col_offset)) and not isinstance(n.args[0], ast.Starred),
                  lambda n, sub: ast.Call(func=ast.Name(id='g', ctx=ast.Load()), args=[sub(n.args[0]), ast.Name(id='z', ctx=ast.Load())] + [sub(a_) for a_ in n.args[1:]], keywords=[ast.keyword(arg=k_.arg, value=sub(k_.value)) for k_ in n.keywords])),
    'list_split': (lambda: MList(elts=[M(first=...), MQSTAR(rest=...)]), '(__FST_first, [__FST_rest])', lambda n: isinstance(n, ast.List) and len(n.elts) >= 1 and isinstance(n.ctx, ast.Load),
                   lambda n, sub: ast.Tuple(elts=[sub(n.elts[0]), ast.List(elts=[sub(e) for e in n.elts[1:]], ctx=ast.Load())], ctx=ast.Load())),
}


def reference(tree, is_match, build, count, nested, leave):
    """-> number of substitutions; mutates tree"""
    state = {'n': 0}
    limit = count if count > 0 else 10 ** 9

    def children(node):
        return list(ast.iter_fields(node))

    def visit(node):
        # returns replacement for node
        if not leave:
            if state['n'] < limit and is_match(node):
                state['n'] += 1
                if build is None:
                    return generic(node) if nested else node     # identity template: same structure
                sub = (lambda c_: visit(c_)) if nested else (lambda c_: c_)
                return build(node, sub)
            return generic(node)
        new = generic(node)
        if state['n'] < limit and is_match(new):
            state['n'] += 1
            if build is None:
                return new
            return build(new, lambda c_: c_)
        return new

    def generic(node):
        for name, val in children(node):
            if isinstance(val, list):
                for i, v in enumerate(val):
                    if isinstance(v, ast.AST):
                        val[i] = visit(v)
            elif isinstance(val, ast.AST):
                setattr(node, name, visit(val))
        return node
    generic(tree)
    return state['n']


def _mk(key, row):
    src = SRCS[key]
    mkpat, repl, is_match, build = ROWS[row]

    ctx_row = row.endswith('_inst')

    def fn(count: int, nested: bool, leave: bool, cx: bool):
        if not ctx_row:
            assume(not cx)
        assume(-2 <= count <= 12)
        cnt = pc.pin(count, -2, 12)
        if row == 'str_slot':
            assume(not nested and not leave)      # the text put into the string is the capture's source at that moment: only unambiguous when nothing inside it is rewritten first
        with pc.untraced():
            root = FST(src, 'exec')
            pc.reset_globals()
            ref = ast.parse(src)
            nref = reference(ref, (lambda n_: is_match(n_, cx)) if ctx_row else is_match, build, cnt, nested, leave)
            exp = ast.dump(ref)
            try:
                valid = ast.dump(ast.parse(ast.unparse(ref))) == exp
            except Exception:   # noqa: BLE001
                valid = False
        assume(valid)
        sig = f'sub.{key}.{row}'
        try:
            with FST.options(**pc.OPTS):
                _r, nuniq, ntot = root.subn(mkpat(), repl, nested, count=max(cnt, 0), on='leave' if leave else 'enter', **({'ctx': cx} if ctx_row else {}))
        except pc.EXPECTED_RAISES as ex:
            fail('sub.raised', (key, row, cnt, nested, leave, cx, type(ex).__name__, str(ex)[:200]))
        with pc.untraced():
            t = pc.o_parse(root, sig)
            got = ast.dump(t)
            check(got == exp, 'sub.result_differs_from_reference_transformer', (key, row, cnt, nested, leave, pc.R(root.src), pc._first_diff(exp, got)))
            check(pc.R(nuniq) == nref, 'sub.reported_count_differs_from_substitutions_made', (key, row, cnt, nested, leave, pc.R(nuniq), nref))
            check(pc.R(ntot) == pc.R(nuniq), 'sub.total_count_differs_without_loop', (pc.R(nuniq), pc.R(ntot)))
            before = sorted(v for k_, v, _ in _toks(src) if k_ == 'COMMENT')
            after = sorted(v for k_, v, _ in _toks(pc.R(root.src)) if k_ == 'COMMENT')
            if row not in ('call_wrap', 'str_slot') or key != 'calls':     # 'calls' has a comment INSIDE a matched node (allowed to go with it)
                check(after == before, 'sub.comment_lost_or_duplicated_outside_substituted_nodes', (key, row, before, after))
            else:
                check(set(after) <= set(before), 'sub.comment_appeared_from_nowhere', (before, after))
            pc.links_ok(root, sig)
        cover('ok')
    return fn


FNU = ['fst.match.subn', 'fst.match.sub', 'fst.match.search', 'fst.match._sub_quantifier_list_edge_item', 'fst.fst_traverse.walk', 'fst.fst_put_one._put_one']
CELLS = []
for _k, _rows in (('calls', ('call_wrap', 'identity_binop', 'str_slot')), ('names', ('name_attr', 'name_load_inst', 'name_store_inst')), ('lists', ('list_split',)), ('binops', ('identity_binop', 'name_attr')), ('callmix', ('args_tail',))):
    for _r in _rows:
        CELLS.append(Cell(f'P1.sub[{_k},{_r}]', _mk(_k, _r), 'P', FNU,
                          f'carrier {_k}; pattern/template row {_r} ({ROWS[_r][1]!r}); count symbolic in -2..12, nested and on=leave booleans (ctx= boolean for the rows whose pattern holds a context instance)',
                          tier='quick', budget=900, per_path=120, out='rows/carriers outside the table; loop, callbacks, scope/back settings', reset=pc.reset_globals))
CELLS.append(Cell('P1.sub_loop[nestlists]', p1_loop, 'P', FNU, 'pattern [x] -> x with loop budget symbolic in 0..6 (0 = unbounded) on a carrier with several nested single-element lists of different depths; reference = per-location unwrapping',
                  tier='quick', budget=600, per_path=120, reset=pc.reset_globals))
CELLS.append(Cell('P1.sub_loop_ctx', p1_loop_ctx, 'P', FNU, 'loop budget symbolic 1..5 and ctx boolean: the re-match of a substituted location compares expression contexts exactly when the search does',
                  tier='quick', budget=300, per_path=60, reset=pc.reset_globals))
