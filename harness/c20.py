"""C20 — options and edits are isolated per call, per block and (P3, one preemption at source-line granularity) per thread.

K1: the option store. One cell per option name. Symbolic: the value (index into a vocabulary of ~36 values incl. every
    documented form and near-misses), a second option + value, whether the block raises, nesting with an inner block or an
    inner set_options. Assertions: invalid name/value => ValueError and get_options() IDENTICAL to before (validate-all-then-
    update); otherwise exactly the named options changed; on block exit (normal or by exception) the named options are
    restored exactly; accept/reject == the value grammar documented in options().
P1: an option passed to one edit call never changes get_options(), also when the call raises, and the edit's result equals
    the result under the same option set globally (per-call == per-block).
"""
from engine.h import Cell, assume, check, cover, fail
from harness import pcommon as pc

from fst import FST

PROPERTY = 'C20'
THOROUGH_SCALE = 2.0

DEFAULTS = {'raw': False, 'trivia': True, 'coerce': True, 'promote': True, 'elif_': True, 'pep8space': True, 'docstr': True, 'pars': 'auto',
            'pars_walrus': False, 'pars_arglike': True, 'norm': False, 'norm_self': None, 'norm_get': None, 'set_norm': 'star', 'op_side': 'left',
            'op': None, 'args_as': None}
NAMES = list(DEFAULTS)

VALS = [True, False, None, 0, 1, 2, -1, 'auto', 'strict', 'identifier', 'all', 'star', 'call', 'left', 'right', 'pos', 'kw_maybe', 'arg_only',
        'block', 'all+1', 'none-', 'line', 'block+x', 'line+2', 'bogus', '', (), (True,), ('line',), ('all', 'block-2'), ('line', 'line'), (1, 2),
        (True, False, True), ('bogus',), ['is', 'not'], 1.0, '+', '-3', ('block', 'bogus')]


def _is_bool(v):
    return v is True or v is False


def _lead_ok(v):
    return isinstance(v, int) or (isinstance(v, str) and v in ('all', 'block', 'none', 'all+1', 'none-', '+', '-3'))


def _trail_ok(v):
    return isinstance(v, int) or (isinstance(v, str) and v in ('all', 'block', 'none', 'line', 'all+1', 'none-', 'line+2', '+', '-3', 'block-2'))


def valid(o, v):
    """value grammar transcribed from the options() docstring / the comment table at the top of fst_options.py"""
    if o == 'raw' or o == 'pars':
        return _is_bool(v) or v == 'auto'
    if o in ('coerce', 'elif_'):
        return _is_bool(v)
    if o == 'promote':
        return _is_bool(v) or v in ('identifier', 'all')
    if o == 'pep8space':
        return _is_bool(v) or (v == 1 and not isinstance(v, str))
    if o == 'docstr':
        return _is_bool(v) or v == 'strict'
    if o in ('pars_walrus', 'pars_arglike'):
        return _is_bool(v) or v is None
    if o == 'norm':
        return _is_bool(v) or v in ('star', 'call')
    if o in ('norm_self', 'norm_get'):
        return _is_bool(v) or v is None or v in ('star', 'call')
    if o == 'set_norm':
        return v in ('star', 'call')
    if o == 'op_side':
        return v in ('left', 'right')
    if o == 'args_as':
        return v is None or v in ('pos', 'arg', 'kw', 'arg_only', 'kw_only', 'pos_maybe', 'arg_maybe', 'kw_maybe')
    if o == 'op':
        return v is None or isinstance(v, (str, list))
    if o == 'trivia':
        if isinstance(v, tuple):
            if len(v) == 0:
                return True
            if len(v) == 1:
                return _trail_ok(v[0])
            if len(v) == 2:
                return _lead_ok(v[0]) and _trail_ok(v[1])
            return False
        return _lead_ok(v) and not (isinstance(v, str) and v == 'line')
    return False      # unknown option name


class Boom(Exception):
    pass


def _reset():
    FST.set_options(**DEFAULTS)
    pc.reset_globals()


def _same(a, b):
    if a.keys() != b.keys():
        return False
    for k in a:
        if type(a[k]) is not type(b[k]) or a[k] != b[k]:
            return False
    return True


def _mk_store(o):
    def k1(vi: int, second: int, boom: bool, nest: int):
        assume(0 <= vi < len(VALS) and 0 <= second <= 4 and 0 <= nest <= 4)
        v = VALS[pc.pin(vi, 0, len(VALS) - 1)]
        # second option passed together with the first: none / a valid other one / an unknown name / a known name with an invalid value / valid None-able
        name2, w = [(None, None), ('op_side', 'right'), ('no_such_option', 1), ('coerce', 0), ('pars_walrus', None)][pc.pin(second, 0, 4)]
        o2i = -1 if name2 is None else 0
        # nesting inside the block: none / inner block same option with 3 different values / inner set_options of another option
        n_, u = [(0, None), (1, True), (1, 'auto'), (1, ('line',)), (2, None)][pc.pin(nest, 0, 4)]
        if name2 == o:
            name2, w, o2i = None, None, -1
        _reset()
        kw = {o: v}
        if o2i >= 0:
            kw[name2] = w
        ok = valid(o, v) and (name2 is None or valid(name2, w))
        before = FST.get_options()
        check(_same(before, DEFAULTS), 'options.reset_failed')
        # --- set_options: validate everything, then update
        try:
            old = FST.set_options(**kw)
        except (ValueError, TypeError):      # TypeError: unhashable value tested for set membership — still a rejection before any change
            check(not ok, f'options.{o}.valid_value_rejected', (kw,))
            check(_same(FST.get_options(), before), f'options.{o}.partially_applied_before_rejecting', (kw, FST.get_options()))
            # the context manager must refuse as well, again without touching anything
            try:
                with FST.options(**kw):
                    fail(f'options.{o}.block_entered_with_invalid_options', (kw,))
            except (ValueError, TypeError):
                pass
            check(_same(FST.get_options(), before), f'options.{o}.block_leaked_on_rejection', (kw,))
            cover('rejected')
            return
        check(ok, f'options.{o}.invalid_value_accepted', (kw,))
        now = FST.get_options()
        exp = dict(before)
        exp.update(kw)
        check(_same(now, exp), f'options.{o}.set_options_changed_other_options', (kw,))
        check(_same(old, {k: before[k] for k in kw}), f'options.{o}.set_options_returned_wrong_old_values', (old,))
        FST.set_options(**old)
        check(_same(FST.get_options(), before), f'options.{o}.restore_by_old_values_failed')
        # --- get_option: per-call dict wins, otherwise thread default
        check(FST.get_option(o, {o: v}) is v or FST.get_option(o, {o: v}) == v, f'options.{o}.get_option_ignores_call_value')
        gd = FST.get_option(o, {})
        check(type(gd) is type(before[o]) and gd == before[o], f'options.{o}.get_option_default_wrong')
        # --- block: exactly the named options restored on exit, normal or exceptional, also when nested
        inner_changed = {}
        try:
            with FST.options(**kw):
                inside = FST.get_options()
                check(_same(inside, exp), f'options.{o}.block_values_wrong_inside')
                if n_ == 1 and valid(o, u):          # nested block on the same option
                    with FST.options(**{o: u}):
                        check(FST.get_option(o) == u, f'options.{o}.inner_block_value_wrong')
                    check(_same(FST.get_options(), exp), f'options.{o}.inner_block_not_restored')
                elif n_ == 2:                         # set_options of ANOTHER option inside: documented to persist
                    other = 'op_side' if o != 'op_side' and name2 != 'op_side' else 'set_norm' if o != 'set_norm' and name2 != 'set_norm' else 'coerce'
                    newv = {'op_side': 'right', 'set_norm': 'call', 'coerce': False}[other]
                    FST.set_options(**{other: newv})
                    inner_changed[other] = newv
                if boom:
                    raise Boom()
        except Boom:
            cover('boom')
        after = FST.get_options()
        exp_after = dict(before)
        exp_after.update(inner_changed)
        check(_same(after, exp_after), f'options.{o}.block_exit_did_not_restore_exactly', (kw, boom, n_, {k: after[k] for k in after if after[k] != exp_after.get(k)}))
        _reset()
        cover('ok')
    return k1


def _mk_percall(cid, o):
    c = pc.CARRIER[cid]

    sub = [v_ for v_ in VALS if valid(o, v_)][:6] + [v_ for v_ in VALS if not valid(o, v_)][:4]

    def fn(vi: int, a: int, b: int):
        assume(0 <= vi < len(sub))
        v = sub[pc.pin(vi, 0, len(sub) - 1)]
        _reset()
        before = FST.get_options()
        x = pc.Ctx(c)
        sig = f'percall.{cid}.{o}'
        r1 = None
        try:
            x.cont.put_slice(c.code(1), a, b, c.field, **{o: v})
            with pc.untraced():
                r1 = pc.R(x.root.src)
        except pc.EXPECTED_RAISES + (TypeError,) as e:
            r1 = ('raise', type(e).__name__)
        check(_same(FST.get_options(), before), sig + '.call_option_leaked_into_defaults', (v,))
        check(not pc.fst_core._MODIFYING, sig + '.modification_lock_leaked')
        # per-call == per-block
        if valid(o, v):
            y = pc.Ctx(c)
            try:
                with FST.options(**{o: v}):
                    y.cont.put_slice(c.code(1), a, b, c.field)
                with pc.untraced():
                    r2 = pc.R(y.root.src)
            except pc.EXPECTED_RAISES + (TypeError,) as e:
                r2 = ('raise', type(e).__name__)
            check(r1 == r2, sig + '.per_call_differs_from_per_block', (v, r1, r2))
            check(_same(FST.get_options(), before), sig + '.block_leaked', (v,))
        # and the NEXT call without the option behaves as with defaults
        z = pc.Ctx(c)
        z2 = pc.Ctx(c)
        try:
            z.cont.put_slice(c.code(1), 0, 1, c.field)
            with FST.options(**DEFAULTS):
                z2.cont.put_slice(c.code(1), 0, 1, c.field)
            with pc.untraced():
                check(pc.R(z.root.src) == pc.R(z2.root.src), sig + '.following_call_affected', (v,))
        except pc.EXPECTED_RAISES:
            pass
        _reset()
        cover('ok')
    return fn


OWN_SRC = 'class K:\n    def m(self):\n        """Doc\n        two."""\n        return 1\n    x = """s\n  t"""\n'


def p2_query_options(seq: int, v1: int, v2: int):
    """a per-call option of a QUERY (own_src docstr=...) affects only that call; a block option only the block: the same node
    asked in any order of (default, explicit, inside a block) answers like a fresh tree asked once under the same effective option"""
    import ast as _ast
    DV = [True, False, 'strict']
    assume(0 <= seq <= 5 and 0 <= v1 <= 2 and 0 <= v2 <= 2)
    order = [(0, 1, 2), (0, 2, 1), (1, 0, 2), (1, 2, 0), (2, 0, 1), (2, 1, 0)][pc.pin(seq, 0, 5)]
    a1, a2 = DV[pc.pin(v1, 0, 2)], DV[pc.pin(v2, 0, 2)]
    _reset()
    with pc.untraced():
        root = FST(OWN_SRC, 'exec')
        nodes = [n.f for n in _ast.walk(root.a) if isinstance(n, (_ast.FunctionDef, _ast.Expr, _ast.Assign, _ast.ClassDef))]
    for node in nodes:
        got = {}
        for step in order:
            if step == 0:
                got['default'] = node.own_src()
            elif step == 1:
                got['call'] = node.own_src(docstr=a1)
            else:
                with FST.options(docstr=a2):
                    got['block'] = node.own_src()
        with pc.untraced():
            fresh = FST(OWN_SRC, 'exec')
            fn_ = [n.f for n in _ast.walk(fresh.a) if isinstance(n, (_ast.FunctionDef, _ast.Expr, _ast.Assign, _ast.ClassDef))][nodes.index(node)]
            exp_default = fn_.own_src()
            fresh2 = FST(OWN_SRC, 'exec')
            exp_call = [n.f for n in _ast.walk(fresh2.a) if isinstance(n, (_ast.FunctionDef, _ast.Expr, _ast.Assign, _ast.ClassDef))][nodes.index(node)].own_src(docstr=a1)
            fresh3 = FST(OWN_SRC, 'exec')
            with FST.options(docstr=a2):
                exp_block = [n.f for n in _ast.walk(fresh3.a) if isinstance(n, (_ast.FunctionDef, _ast.Expr, _ast.Assign, _ast.ClassDef))][nodes.index(node)].own_src()
            check(got['default'] == exp_default, 'query_options.default_answer_depends_on_other_calls', (type(node.a).__name__, order, a1, a2))
            check(got['call'] == exp_call, 'query_options.per_call_option_ignored_or_leaked', (type(node.a).__name__, order, a1, a2))
            check(got['block'] == exp_block, 'query_options.block_option_ignored_or_leaked', (type(node.a).__name__, order, a1, a2))
    check(_same(FST.get_options(), DEFAULTS), 'query_options.defaults_changed')
    _reset()
    cover('ok')


FNO = ['fst.fst_options.check_options', 'fst.fst_options.set_options', 'fst.fst_options.options', 'fst.fst_options.get_option', 'fst.fst_options.get_options',
       'fst.fst_options._check_opt_trivia', 'fst.fst_options._check_opt_pep8space']
CELLS = []
for _o in NAMES + ['no_such_option']:
    CELLS.append(Cell(f'K1.store[{_o}]', _mk_store(_o), 'K', FNO,
                      f'option {_o}: value = any of {len(VALS)} vocabulary values (every documented form + near misses), optional second option (valid, unknown name, known name with invalid value, None-valued), '
                      'block raises or not, 5 nesting variants (inner block on the same option with 3 values, inner set_options of another option)', tier='quick' if _o in ('trivia', 'pars', 'pep8space', 'norm_self', 'no_such_option', 'op', 'raw') else 'thorough',
                      budget=900, per_path=60, out='threads (single-threaded symbolic executor); values outside the vocabulary', reset=_reset))
for _cid, _o in (('ifbody3', 'trivia'), ('ifbody3', 'pep8space'), ('list4c', 'pars'), ('tuple3', 'norm'), ('list4c', 'raw'), ('ifbody3', 'elif_'), ('funcbody', 'docstr')):
    CELLS.append(Cell(f'P1.percall[{_cid},{_o}]', _mk_percall(_cid, _o), 'P', FNO + pc.FN_EDIT,
                      f'carrier {_cid}; put_slice(code, a, b, {_o}=value) with value from 6 valid + 4 invalid vocabulary values and (a, b) over Z: defaults untouched afterwards (also on raise), per-call == per-block result, next call unaffected',
                      tier='quick' if (_cid, _o) in (('ifbody3', 'trivia'), ('list4c', 'pars')) else 'thorough', budget=900, per_path=60, reset=_reset))
CELLS.append(Cell('P2.query_options', p2_query_options, 'P', FNO + ['fst.fst.FST.own_src', 'fst.fst.FST.own_lines'],
                  'own_src() on every def/class/statement of a carrier with docstrings, asked in all 6 orders of (default, docstr=v1 per call, inside options(docstr=v2)) for v1, v2 in {True, False, strict}; '
                  'each answer equals a fresh tree asked once under the same effective option', budget=600, per_path=60, reset=_reset))


# ---------------------------------------------------------------------------------------------------------------- P4
def p4_option_value_objects(kind: int, side: int, via: int, reps: int):
    """an option VALUE that is an object (FST operator node, list of strings) is only read: reusing the same object for several calls, through a
    block or as thread default, gives what fresh equal objects give, and the object itself is unchanged"""
    assume(0 <= kind <= 1 and 0 <= side <= 1 and 0 <= via <= 2 and 2 <= reps <= 3)
    kd, sd, vi, rp = pc.pin(kind, 0, 1), ('left', 'right')[pc.pin(side, 0, 1)], pc.pin(via, 0, 2), pc.pin(reps, 2, 3)
    _reset()

    def mkop():
        return FST('is not', 'cmpop') if kd == 0 else ['is', 'not']

    def snap(o):
        return (o.src, type(o.a).__name__) if kd == 0 else list(o)
    shared = mkop()
    before = snap(shared)
    got, exp = [], []
    for _i in range(rp):
        f = FST('a < b > c')
        if vi == 0:
            f.put_slice('x', 1, 1, op_side=sd, op=shared)
        elif vi == 1:
            with FST.options(op=shared):
                f.put_slice('x', 1, 1, op_side=sd)
        else:
            old = FST.set_options(op=shared)
            try:
                f.put_slice('x', 1, 1, op_side=sd)
            finally:
                FST.set_options(**old)
        got.append(f.src)
        g = FST('a < b > c')
        g.put_slice('x', 1, 1, op_side=sd, op=mkop())
        exp.append(g.src)
    with pc.untraced():
        check(pc.R(got) == pc.R(exp), 'options.result_depends_on_reuse_of_an_option_value_object', (kd, sd, vi, pc.R(got), pc.R(exp)))
        check(snap(shared) == before, 'options.option_value_object_modified_by_an_edit', (kd, sd, vi, before, snap(shared)))
        check(_same(FST.get_options(), DEFAULTS), 'options.defaults_changed')
    _reset()
    cover('ok')


# ---------------------------------------------------------------------------------------------------------------- P3
# Two real threads, each with its own tree and its own options. The SCHEDULE is the symbolic variable: which thread is preempted,
# and after how many executed lines of pfst code (counted by a sys.settrace hook in that thread); the other thread then runs its
# whole program, then the first one resumes. Each thread's observations (edited source, tree dump, every get_options()
# snapshot, exceptions) must equal those of the same program run alone in a fresh thread.
import os as _os
import queue as _queue
import sys as _sys
import threading as _threading

import fst as _fstpkg

_FSTDIR = _os.path.dirname(_fstpkg.__file__)


def _prog_a():
    import ast as _ast
    obs = [('start', dict(FST.get_options()))]
    FST.set_options(pep8space=False, op_side='right')
    t = FST('def f(): pass\nx = [a,  # c\n     b]\nif u:\n    v = 1  # cv\n', 'exec')
    with FST.options(trivia=False, norm=True, pars=True):
        t.body[1].value.put_slice('p, q', 1, 2)
        t.body.append('def g(): pass')
        obs.append(('inside', dict(FST.get_options())))
        try:
            t.body[2].put_slice('else = 1', 0, 1)       # fails: must not leak the block's options nor lock the tree
        except Exception as e:   # noqa: BLE001
            obs.append(('exc', type(e).__name__))
    t.body[2].body.append('w = 2')
    obs.append(('src', t.src))
    obs.append(('dump', _ast.dump(t.a, include_attributes=True)))
    obs.append(('parse', _ast.dump(_ast.parse(t.src), include_attributes=True)))
    obs.append(('end', dict(FST.get_options())))
    return obs


def _prog_b():
    import ast as _ast
    obs = [('start', dict(FST.get_options()))]
    t = FST('class C:\n    """doc"""\n    k = (1,\n         2)\n\ny = f(k, *m)\n', 'exec')
    t.body[1].value.put_slice('n=3', 2, 2, '_args', pars=False)
    FST.set_options(trivia=('all', 'line'), docstr='strict')
    obs.append(('mid', dict(FST.get_options())))
    t.body[0].body[1].value.elts[1].replace('(yield)')
    t.body[0].body.insert('z: int = 0  # cz', 1)
    try:
        with FST.options(elif_=False):
            t.body[0].put_slice('def m(self): pass', 'end', 'end')
            raise KeyError('boom')
    except KeyError:
        obs.append(('after_boom', dict(FST.get_options())))
    obs.append(('src', t.src))
    obs.append(('dump', _ast.dump(t.a, include_attributes=True)))
    obs.append(('parse', _ast.dump(_ast.parse(t.src), include_attributes=True)))
    obs.append(('end', dict(FST.get_options())))
    return obs


class _Runner(_threading.Thread):
    """runs a program in its own thread; if pause_at is not None, blocks after that many traced lines of pfst code until released"""

    def __init__(self, prog, pause_at=None):
        super().__init__(daemon=True)
        self.prog, self.pause_at = prog, pause_at
        self.paused = _threading.Event()
        self.resume = _threading.Event()
        self.finished = _threading.Event()
        self.count = 0
        self.obs = None

    def _trace(self, frame, ev, arg):
        if not frame.f_code.co_filename.startswith(_FSTDIR):
            return None
        if ev == 'line':
            self.count += 1
            if self.count == self.pause_at:
                self.paused.set()
                self.resume.wait(60)
        return self._trace

    def run(self):
        if self.pause_at is not None or True:
            _sys.settrace(self._trace)
        try:
            self.obs = self.prog()
        except BaseException as e:   # noqa: BLE001
            self.obs = [('crash', type(e).__name__, str(e)[:200])]
        finally:
            _sys.settrace(None)
            self.paused.set()
            self.finished.set()


_SOLO = {}


def _solo():
    if not _SOLO:
        for name, prog in (('a', _prog_a), ('b', _prog_b)):
            r = _Runner(prog)
            r.start()
            r.join(60)
            _SOLO[name] = (r.obs, r.count)
    return _SOLO


def _pin_range(x, lo, hi):
    """case-split a symbolic int by bisection (log2 decisions per path instead of one per value)"""
    while lo < hi:
        mid = (lo + hi) // 2
        if x <= mid:
            hi = mid
        else:
            lo = mid + 1
    return lo


def _mk_threads(first_b, part, nparts):
  def p3_threads(k: int):
    with pc.untraced():
        solo = _solo()
        na, nb = solo['a'][1], solo['b'][1]
    n = nb if first_b else na
    lo, hi = 1 + (n + 1) * part // nparts, (n + 1) * (part + 1) // nparts       # this cell: preemption points lo..hi of 1..n+1 (n + 1: never preempted)
    assume(lo <= k <= hi)
    kk = _pin_range(k, lo, hi)
    with pc.untraced():
        p1, p2 = (_prog_b, _prog_a) if first_b else (_prog_a, _prog_b)
        r1 = _Runner(p1, pause_at=kk)
        r1.start()
        r1.paused.wait(60)             # r1 is now parked in the middle of pfst code (or has finished)
        r2 = _Runner(p2)
        r2.start()
        r2.join(60)
        r1.resume.set()
        r1.join(60)
        check(r1.finished.is_set() and r2.finished.is_set(), 'threads.deadlock_or_timeout', (first_b, kk))
        oa, ob = (r2.obs, r1.obs) if first_b else (r1.obs, r2.obs)
        for name, got in (('a', oa), ('b', ob)):
            exp = solo[name][0]
            if got != exp:
                d = next((i for i, (g_, e_) in enumerate(zip(got, exp)) if g_ != e_), min(len(got), len(exp)))
                fail('threads.observation_differs_from_solo_run', (name, first_b, kk, got[d] if d < len(got) else None, exp[d] if d < len(exp) else None))
        for name in ('a', 'b'):
            ok = [o for o in solo[name][0] if o[0] in ('dump', 'parse')]
            check(len(ok) == 2 and ok[0][1] == ok[1][1], 'threads.solo_program_result_violates_C01', name)
            check(solo[name][0][0][1] == DEFAULTS, 'threads.new_thread_does_not_start_with_defaults', (name, solo[name][0][0][1]))
    cover('ok')
  return p3_threads


for _fb in (False, True):
    for _pt in range(8):
        CELLS.append(Cell(f'P3.threads_preempt[first={"b" if _fb else "a"},part={_pt}/8]', _mk_threads(_fb, _pt, 8), 'P', FNO + ['fst.fst_options._ThreadOptions', 'fst.fst_core._Modifying'],
                  'two real threads, each editing its own tree under its own option defaults / blocks / per-call options (incl. a failing edit and a raising block); SCHEDULE symbolic: the thread named first is '
                  'preempted after k executed lines of pfst code, k symbolic over this eighth of ALL line boundaries of its program (several thousand), the other thread then runs to completion, then the first resumes; '
                  'each thread\'s observations (edited source, tree incl. positions, every get_options() snapshot, exceptions) equal its solo run',
                  tier='quick', budget=900, per_path=120,
                  stubs=['preemption is placed by a sys.settrace line hook in the preempted thread; granularity = source lines of pfst, not bytecodes'],
                  out='more than one preemption per run; more than two threads; preemption inside a line (between bytecodes) or inside C code; free-threaded builds', reset=_reset))
CELLS.append(Cell('P4.option_value_objects', p4_option_value_objects, 'P', FNO + ['fst.fst_put_slice._code_to_slice_Compare__all_maybe_dangling'],
                  'op given as an FST operator node or a list of strings, the SAME object used for 2-3 Compare slice puts per call / through options() / as thread default, op_side left or right (all symbolic): results equal those with fresh equal objects, the object is unchanged',
                  tier='quick', budget=300, per_path=60, reset=_reset))
