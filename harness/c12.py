"""C12 — a failed edit leaves the target tree untouched and still editable.

K1: the modification registry (_Modifying enter/success/fail) as an inductive step from an ARBITRARY valid pre-state:
    every exit path restores the registry exactly (histories of any length follow by induction).
K2: validate_put_arglike refuses exactly the invalid splices, before any mutation (shared with C03).
P1: invalid requests (unparsable / wrong-category code, consumed or non-root FST as code, bad option names and values,
    ordering rule violations, out-of-range indices) with symbolic indices over Z: if the call raises, source, tree,
    positions and registry are exactly as before; then a valid edit with its own symbolic index succeeds and O-parse holds.
"""
import ast

from engine.h import Cell, assume, check, cover, fail
from harness import pcommon as pc
from harness import c03 as _c03

from fst import FST, fst_core

PROPERTY = 'C12'
THOROUGH_SCALE = 2.0
THOROUGH_STRIDE = 3        # thorough tier = all quick cells + every 3th thorough-only cell (sized to run end-to-end; '--cells' reaches the others)


class Boom(Exception):
    pass


def k1_registry(pre_n: int, who: int, inner_who: int, depth: int, boom_at: int, force: bool, manual: bool, raw: int):
    assume(0 <= pre_n and 0 <= who <= 2 and 0 <= inner_who <= 2 and 0 <= depth <= 2 and -1 <= boom_at <= 2 and 0 <= raw <= 2)
    with pc.untraced():
        f = FST('x = [a, f"{b=}"]', 'exec')
        lst = f.body[0].value
        nodes = [lst.elts[0], lst.elts[1].values[1].value, lst]
        other = FST('y', 'exec')
    reg = fst_core._MODIFYING
    reg.clear()
    reg[other] = (other, 7)
    if pre_n:
        reg[f] = (nodes[0], pre_n)          # arbitrary in-progress modification of node 0 at arbitrary depth
    before = dict(reg)
    rawv = [False, True, None][pc.pin(raw, 0, 2)]

    def run(level):
        node = nodes[pc.pin(who if level == 0 else inner_who, 0, 2)]
        if manual:
            m = node._modifying(False, rawv, force=force).enter()
            try:
                if boom_at == level:
                    raise Boom()
                if level < depth:
                    run(level + 1)
            except BaseException:
                m.fail()
                raise
            m.success()
        else:
            with node._modifying(False, rawv, force=force):
                if boom_at == level:
                    raise Boom()
                if level < depth:
                    run(level + 1)
    try:
        run(0)
        cover('returned')
    except Boom:
        cover('boom')
    except RuntimeError as e:
        check('nested modification' in str(e), 'registry.unexpected_runtime_error', str(e))
        cover('nested_refused')
    after = dict(reg)
    check(len(after) == len(before), 'registry.entry_leaked_or_lost', (len(before), len(after)))
    for k, v in before.items():
        check(k in after and after[k][0] is v[0] and after[k][1] == v[1], 'registry.entry_changed', (v[1],))
    reg.clear()


# ---------------------------------------------------------------------------------------------------------------- P1
ARGS_CARRIERS = {
    'args_star': ('def f(*, b, c=1):  # s\n    pass\n', ['x, /', '*z', '**k', 'y=2', 'q']),
    'args_mix': ('def f(a, /, b, *c, d,\n      **e): pass\n', ['x, /', '*z', '**k', 'y=2', 'q', '*, w']),
    'lambda_star': ('g = lambda *, k, m=2: k\n', ['*z', 'q', '**k']),
}


def _args_node(root, cid):
    return root.body[0].args if cid != 'lambda_star' else root.body[0].value.args


def _mk_args_fail(cid, code):
    src, _ = ARGS_CARRIERS[cid]

    def fn(a: int, b: int, i2: int):
        with pc.untraced():
            root = FST(src, 'exec')
            dump0 = ast.dump(root.a, include_attributes=True)
            pc.reset_globals()
        args = _args_node(root, cid)
        sig = f'{cid}.put_slice({code!r})'
        try:
            args.put_slice(code, a, b, '_all')
            with pc.untraced():
                pc.o_parse(root, sig + '.ok')
            cover('ok')
        except pc.EXPECTED_RAISES:
            with pc.untraced():
                check(root.src == src, sig + '.src_changed_by_failed_edit', root.src)
                pc.realize_tree(root.a)
                d = ast.dump(root.a, include_attributes=True)
                check(d == dump0, sig + '.tree_changed_by_failed_edit', pc._first_diff(dump0, d))
                check(not fst_core._MODIFYING, sig + '.modification_lock_leaked')
                pc.links_ok(root, sig)
            cover('raise')
        # the tree is still editable and C01 holds after the next edit (which may itself be refused for ordering reasons)
        args = _args_node(root, cid)
        with pc.untraced():
            src1 = root.src
        try:
            args.put_slice('zz', i2, i2, '_all')
        except pc.EXPECTED_RAISES:
            with pc.untraced():
                check(root.src == src1, sig + '.second.src_changed_by_failed_edit', root.src)
                check(not fst_core._MODIFYING, sig + '.second.modification_lock_leaked')
            cover('second.raise')
            return
        with pc.untraced():
            pc.o_parse(root, sig + '.second')
        cover('second.ok')
    return fn


BAD = {
    'unparsable': lambda x: ('1 +', {}),
    'unparsable2': lambda x: (')', {}),
    'wrongcat': lambda x: ('pass' if x.c.id not in ('ifbody3', 'modbody', 'funcbody') else 'except: pass', {}),
    'unknown_option': lambda x: (x.c.code(1), {'bogus': 1}),
    'bad_trivia': lambda x: (x.c.code(1), {'trivia': 'blok'}),
    'bad_pars': lambda x: (x.c.code(1), {'pars': 'maybe'}),
    'bad_raw': lambda x: (x.c.code(1), {'raw': 2}),
    'consumed_fst': 'consumed',
    'nonroot_fst': 'nonroot',
    'own_root_as_code': lambda x: (x.root, {}),          # the tree's own root passed as the code to put into it
}


def _consume(c):
    """an FST slice of the carrier's kind that has been consumed by a put into ANOTHER tree (None if the carrier cannot express it);
    tried with one and with two new elements as the source container (a one-element BoolOp / MatchOr collapses) and at either end
    of the other tree (ordering rules of call arguments)"""
    for k in (1, 2):
        for at_end in (False, True):
            try:
                other = pc.Ctx(c)
                code = FST(c.render(c.new[:k]), 'exec')
                code = c.locate(code).get_slice(0, 1, c.field)
                pos = other.n if at_end else 0
                with FST.options(**pc.OPTS):
                    other.cont.put_slice(code, pos, pos, c.field)
                return code
            except Exception:   # noqa: BLE001  this combination cannot express the scenario
                continue
    return None


def _mk_fail(cid, kind):
    c = pc.CARRIER[cid]

    def fn(a: int, b: int, i2: int):
        x = pc.Ctx(c)
        sig = f'{cid}.{kind}'
        spec = BAD[kind]
        if spec == 'consumed':
            # build an FST, consume it by putting it into ANOTHER tree, then reuse it
            with pc.untraced():
                code = _consume(c)
                pc.reset_globals()
            assume(code is not None)
            opts = {}
        elif spec == 'nonroot':
            with pc.untraced():
                other = pc.Ctx(c)
                kids = [k for k in ast.iter_child_nodes(other.cont.a) if hasattr(k, 'f')]
                code = kids[0].f if kids else None
            assume(code is not None)
            opts = {}
        else:
            code, opts = spec(x)
        raised = False
        try:
            with FST.options(**pc.OPTS):
                x.cont.put_slice(code, a, b, c.field, **opts)
        except pc.EXPECTED_RAISES:
            raised = True
            x.check_unchanged(sig + '.raise')
            cover('raise')
        if not raised:
            # accepted (e.g. coerced): then it must at least satisfy C01
            with pc.untraced():
                pc.o_parse(x.root, sig + '.accepted')
            cover('accepted')
            return
        # next valid edit on the same tree: must succeed, O-parse + O-list
        i = pc.ref_insert_pos(x.n, i2)
        exp = x.old[:i] + c.new[:1] + x.old[i:]
        try:
            with FST.options(**pc.OPTS):
                x.cont.insert(c.code_one(), i2, c.field)
        except pc.EXPECTED_RAISES as e:
            with pc.untraced():
                check(not x.valid(exp) or (c.refuse_re and __import__('re').search(c.refuse_re, str(e))), sig + '.tree_not_editable_after_failed_edit', (type(e).__name__, str(e)[:200]))
            cover('second.refused_legit')
            return
        x.check_after(exp, sig + '.second')
        cover('second.ok')
    return fn


ARGS_AS = ['kw', 'pos', 'arg', 'kw_only', 'arg_only', 'pos_maybe', 'arg_maybe', 'kw_maybe']


def _mk_args_cut(cid):
    """cut of an arguments slice with an args_as conversion that may be impossible: a raise must leave the target as it was"""
    src, _ = ARGS_CARRIERS[cid]

    def fn(a: int, b: int, m: int):
        assume(0 <= m < len(ARGS_AS))
        mode = ARGS_AS[pc.pin(m, 0, len(ARGS_AS) - 1)]
        with pc.untraced():
            root = FST(src, 'exec')
            dump0 = ast.dump(root.a, include_attributes=True)
            pc.reset_globals()
        args = _args_node(root, cid)
        sig = f'{cid}.cut(args_as={mode!r})'
        try:
            piece = args.get_slice(a, b, '_all', cut=True, args_as=mode)
        except pc.EXPECTED_RAISES:
            with pc.untraced():
                check(root.src == src, sig + '.src_changed_by_failed_cut', root.src)
                pc.realize_tree(root.a)
                d = ast.dump(root.a, include_attributes=True)
                check(d == dump0, sig + '.tree_changed_by_failed_cut', pc._first_diff(dump0, d))
                check(not fst_core._MODIFYING, sig + '.modification_lock_leaked')
                pc.links_ok(root, sig)
            cover('raise')
            return
        with pc.untraced():
            pc.o_parse(root, sig + '.ok')
        cover('ok')
    return fn


def p1_root_replace_self(ci: int, how: int):
    """root.replace(root) / root.replace(own child) / child.replace(root): circular puts must be refused and leave the tree usable"""
    cs = [c_ for c_ in pc.CARRIERS if c_.id in ('list4c', 'ifbody3', 'tuple3', 'callargs')]
    assume(0 <= ci < len(cs) and 0 <= how <= 2)
    c = cs[pc.pin(ci, 0, len(cs) - 1)]
    hw = pc.pin(how, 0, 2)
    x = pc.Ctx(c)
    sig = f'{c.id}.circular[{hw}]'
    try:
        if hw == 0:
            x.root.replace(x.root)
        elif hw == 1:
            x.cont.replace(x.root)
        else:
            x.root.body[0].replace(x.root)
    except pc.EXPECTED_RAISES + (AttributeError, TypeError, RecursionError) as e:
        x.check_unchanged(sig + '.raise')
        with pc.untraced():
            pc.links_ok(x.root, sig + '.links_after_refusal')
        check(not isinstance(e, (AttributeError, TypeError, RecursionError)), sig + '.internal_error_instead_of_refusal', (type(e).__name__, str(e)[:150]))
        cover('raise')
        return
    with pc.untraced():
        pc.o_parse(x.root, sig + '.accepted')
        pc.links_ok(x.root, sig + '.accepted')
    cover('accepted')


def _mk_badopt(cid):
    """int-valued option out of range: pep8space accepts only True/False/1."""
    c = pc.CARRIER[cid]

    def fn(a: int, b: int, n: int):
        assume(-3 <= n <= 5)      # the error message formats the value (realisation): bounded instead of all Z
        n = pc.pin(n, -3, 5)
        x = pc.Ctx(c)
        sig = f'{cid}.pep8space_int'
        s, e = pc.ref_slice(x.n, a, b)
        try:
            with FST.options(**pc.OPTS):
                x.cont.put_slice(c.code(1), a, b, c.field, pep8space=n)
        except pc.EXPECTED_RAISES:
            x.check_unchanged(sig + '.raise')
            check(n != 1 or e < s, sig + '.valid_option_value_refused', n)
            cover('raise')
            return
        check(n == 1, sig + '.invalid_option_value_accepted', n)
        x.check_after(x.old[:s] + c.new[:1] + x.old[e:], sig)
        cover('ok')
    return fn


FN12 = ['fst.fst_core._Modifying.enter', 'fst.fst_core._Modifying.success', 'fst.fst_core._Modifying.fail', 'fst.fst_core._Modifying.__exit__']
CELLS = [
    Cell('K1.registry_step', k1_registry, 'K', FN12,
         'pre-state: any in-progress count n >= 0 (unbounded) for the tree + another tree present; which of 3 nodes (list element, f-string debug value, '
         'container); nesting depth <= 2 with inner node choice; raise at any level or none; force flag; context-manager or manual enter/success/fail; raw in {False,True,None}',
         budget=300, out='nesting deeper than 3 (covered by induction on the count)', reset=pc.reset_globals),
]
CELLS += [c for c in _c03.CELLS if c.name.startswith('K2.') and ('body=2' in c.name or 'body=1' in c.name or 'body=0' in c.name)]
_Q = {('list4c', 'unparsable'), ('ifbody3', 'unparsable'), ('callargs', 'wrongcat'), ('list4c', 'unknown_option'), ('ifbody3', 'bad_trivia'),
      ('dict3', 'unparsable2'), ('list4c', 'consumed_fst'), ('tuple3', 'nonroot_fst'), ('callgen', 'unparsable'), ('callgen', 'wrongcat')}
def _expressible(c, kind):
    """build-time probe (concrete, untraced): can this carrier express the consumed / non-root scenario at all?  A cell whose
    scenario cannot be built would be vacuous, so it is not generated (the carrier keeps all its other invalid-request cells)"""
    try:
        other = pc.Ctx(c)
        if kind == 'consumed_fst':
            return _consume(c) is not None
        if kind == 'nonroot_fst':
            return any(hasattr(k, 'f') for k in ast.iter_child_nodes(other.cont.a))
        return True
    except Exception:   # noqa: BLE001
        return False
    finally:
        pc.reset_globals()


NOT_EXPRESSIBLE = [(c.id, k) for c in pc.CARRIERS for k in ('consumed_fst', 'nonroot_fst') if not _expressible(c, k)]
for _c in pc.CARRIERS:
    for _k in BAD:
        if (_c.id, _k) in NOT_EXPRESSIBLE:
            continue
        CELLS.append(Cell(f'P1.{_c.id}.{_k}', _mk_fail(_c.id, _k), 'P', pc.FN_EDIT + FN12,
                          f'carrier {_c.id}; invalid request kind {_k}; slice bounds (a, b) and the index of the following valid insert: all integers',
                          tier='quick' if (_c.id, _k) in _Q else 'thorough', budget=300, per_path=60,
                          out='faults injected at arbitrary internal points (pfst has no rollback; the property does not ask for it)', reset=pc.reset_globals))
for _cid in ('ifbody3', 'modbody', 'list4c', 'ifinline', 'elifchain'):
    CELLS.append(Cell(f'P1.{_cid}.pep8space_int', _mk_badopt(_cid), 'P', pc.FN_EDIT + ['fst.fst_options.check_options'],
                      f'carrier {_cid}; put_slice with pep8space = n for integers -3 <= n <= 5 (the error path formats the value, which would realise it) and bounds (a, b) over all of Z', tier='quick' if _cid in ('ifbody3', 'ifinline', 'elifchain') else 'thorough',
                      budget=300, per_path=60, reset=pc.reset_globals))
for _cid, (_src, _codes) in ARGS_CARRIERS.items():
    for _code in _codes:
        CELLS.append(Cell(f'P1.{_cid}.args_put({_code})', _mk_args_fail(_cid, _code), 'P', pc.FN_EDIT + ['fst.fst_put_slice._put_slice_arguments'],
                          f'carrier {_src!r}; put_slice({_code!r}, a, b, "_all") for all integers a, b (ordering rules decide per position), then put_slice("zz", i, i) for all i',
                          tier='quick' if (_cid, _code) in (('args_star', '**k'), ('args_mix', '*z'), ('args_star', 'y=2')) else 'thorough', budget=400, per_path=60,
                          reset=pc.reset_globals))
for _cid in ARGS_CARRIERS:
    CELLS.append(Cell(f'P1.{_cid}.args_cut_as', _mk_args_cut(_cid), 'P', pc.FN_EDIT + ['fst.fst_get_slice._get_slice_arguments'],
                      f'carrier {ARGS_CARRIERS[_cid][0]!r}; get_slice(a, b, "_all", cut=True, args_as=m) for all integers a, b and m over {ARGS_AS}: a raise leaves source, tree and registry unchanged',
                      tier='quick', budget=400, per_path=60, reset=pc.reset_globals))
CELLS.append(Cell('P1.circular_put', p1_root_replace_self, 'P', pc.FN_EDIT + ['fst.fst.FST.replace'],
                  'root.replace(root), container.replace(root), statement.replace(root) on 4 carriers: refused with a proper error, tree unchanged, links intact',
                  tier='quick', budget=300, per_path=60, reset=pc.reset_globals))
for _cid in ('list4c', 'ifbody3', 'callargs'):
    for c_ in CELLS:
        if c_.name == f'P1.{_cid}.own_root_as_code':
            c_.tier = 'quick'
