"""C19 — coercion yields a valid node of the requested kind with the same content.

Coercion of a formatted node is source surgery (delimiters replaced in place, separators rewritten, `_fix_undelimited_seq`,
column arithmetic in `code.py`), coercion of a pure AST goes through unparse + parse. Two harness families:

T1 (re-lettering): operand carriers whose string literals / comments hold marker characters; each marker ranges over EVERY
    Unicode scalar >= U+0080. A fixed script coerces (as_() or a put that coerces) and the result text and every node
    position must be the re-lettering of the marker run, which CPython judged. This is the solver-heavy part: the surgery works
    with character columns on lines whose byte columns differ.
P1 (table x symbolic selection): operand rows x target modes x operand form {root FST, non-root FST, pure AST} x copy flag, the
    selection symbolic and solver-enumerated (finite; stated as such). Leaf oracles use no pfst code:
      O-mode   the result text, placed in the full construct that contains such a fragment, is parsed by CPython; the sub-tree
               found there must equal the result tree in structure and (relative) positions, and be of the requested kind;
      O-leaf   NAME / NUMBER / STRING tokens (tokenize; strings and numbers by value) of operand and result are the same sequence;
      O-same   a root operand that already is of the requested kind is returned as the same object, unchanged;
      O-copy   copy=True, or a non-root operand, leaves the operand's tree byte-identical in source and identical in dump;
      O-forms  formatted operand and its pure AST coerce to structurally equal results (when both succeed).
P2 (puts that coerce): for (container field, natural mode) pairs, put_slice(node) == put_slice(node.as_(mode)) in structure, the
    result satisfies C01, and with coerce=False the same put raises and leaves the target unchanged (C12) unless no coercion
    was needed.
"""
import ast
import io
import keyword
import tokenize

from engine.h import Cell, assume, check, cover, fail
from harness import pcommon as pc
from harness import tletter

from fst import FST

PROPERTY = 'C19'
THOROUGH_SCALE = 2.0

# ----------------------------------------------------------------------------------------------------------------------
# target modes: name -> (embedding with {}, extractor of the reference sub-tree(s), kind check, (line, col) of the fragment)


def _sorted_pos(nodes):
    return sorted(nodes, key=lambda n: (n.lineno, n.col_offset))


def _is(*names):
    return lambda a: type(a).__name__ in names


def _isexpr(a):
    return isinstance(a, ast.expr)


def _c(emb, path, joined=False, wraps=False):
    """candidate embedding: (text with {}, extractor, (line, col) of the fragment in it, join lines with backslashes first)"""
    i = emb.index('{}')
    pre = emb[:i]
    return emb, path, (pre.count('\n') + 1, len(pre) - (pre.rfind('\n') + 1)), joined, wraps      # wraps: the construct's own parentheses become part of a bare sequence's extent


def _join(src):
    """the fragment with its line ends turned into line continuations (no node position changes): how a multi-line fragment of a
    construct that has no brackets of its own (import names) reads inside that construct"""
    lines = src.rstrip('\n').split('\n')
    return '\n'.join([l if l.endswith(chr(92)) else l + ' ' + chr(92) for l in lines[:-1]] + lines[-1:])


def _one(lst):
    if len(lst) != 1:
        raise IndexError('one element expected')
    return lst[0]


# an expression fragment is valid if SOME expression position of Python takes it as it stands: parenthesised, as a subscript
# (bare tuples, slices), as the single element of a list display (starred) or as the single argument of a call (arglike forms)
_PAREN = _c('_z = ({}\n)', lambda t: t.body[0].value)
_SUBSCR = _c('_z[{}\n]', lambda t: t.body[0].value.slice)
_LISTEL = _c('_z = [{}\n]', lambda t: _one(t.body[0].value.elts))
_CALLARG = _c('_z({}\n)', lambda t: _one(t.body[0].value.args + t.body[0].value.keywords))
_EX = [_PAREN, _SUBSCR, _LISTEL]
_PAT = [_c('match _z:\n case {}: pass', lambda t: t.body[0].cases[0].pattern), _c('match _z:\n case ({}\n ): pass', lambda t: t.body[0].cases[0].pattern, False, True),
        _c('match _z:\n case [{}\n ]: pass', lambda t: _one(t.body[0].cases[0].pattern.patterns))]
MODES = {
    'expr':               (_EX, _isexpr),
    'Tuple':              (_EX, _is('Tuple')),
    'List':               (_EX, _is('List')),
    'Set':                (_EX, _is('Set')),
    'Dict':               (_EX, _is('Dict')),
    'Name':               (_EX, _is('Name')),
    'Call':               (_EX, _is('Call')),
    'Attribute':          (_EX, _is('Attribute')),
    'Constant':           (_EX, _is('Constant')),
    'expr_all':           ([_SUBSCR, _PAREN, _LISTEL, _CALLARG], _isexpr),
    'all':                ([_SUBSCR, _PAREN, _LISTEL, _CALLARG, _c('{}', lambda t: _one(t.body)), _c('{}', lambda t: t)], lambda a: isinstance(a, ast.AST)),
    'expr_arglike':       (_EX + [_CALLARG], _isexpr),
    'expr_slice':         ([_SUBSCR, _PAREN], _isexpr),       # pfst's expression modes take any bare expression (yield, walrus): valid once parenthesised
    'stmt':               ([_c('{}', lambda t: _one(t.body))], lambda a: isinstance(a, ast.stmt)),
    'stmts':              ([_c('{}', lambda t: t)], _is('Module')),
    'exec':               ([_c('{}', lambda t: t)], _is('Module')),
    '_Assign_targets':    ([_c('{} _z', lambda t: t.body[0].targets)], _is('_Assign_targets')),
    '_decorator_list':    ([_c('{}\ndef _z(): pass', lambda t: t.body[0].decorator_list)], _is('_decorator_list')),
    '_arglike':           (_EX + [_CALLARG], lambda a: isinstance(a, (ast.expr, ast.keyword))),
    '_arglikes':          ([_c('_z({}\n)', lambda t: _sorted_pos(t.body[0].value.args + t.body[0].value.keywords))], _is('_arglikes')),
    'comprehension':      ([_c('[_z {}\n]', lambda t: _one(t.body[0].value.generators))], _is('comprehension')),
    '_comprehensions':    ([_c('[_z {}\n]', lambda t: t.body[0].value.generators)], _is('_comprehensions')),
    '_comprehension_ifs': ([_c('[_z for _z in _z {}\n]', lambda t: t.body[0].value.generators[0].ifs)], _is('_comprehension_ifs')),
    'arguments':          ([_c('def _z({}\n): pass', lambda t: t.body[0].args)], _is('arguments')),
    'arguments_lambda':   ([_c('(lambda {}: _z)', lambda t: t.body[0].value.args)], _is('arguments')),
    'arg':                ([_c('def _z({}\n): pass', lambda t: _one(t.body[0].args.posonlyargs + t.body[0].args.args))], _is('arg')),
    'keyword':            ([_c('_z({}\n)', lambda t: _one(t.body[0].value.keywords))], _is('keyword')),
    'alias':              ([_c('import {}', lambda t: _one(t.body[0].names)), _c('from _z import {}', lambda t: _one(t.body[0].names))], _is('alias')),
    'Import_name':        ([_c('import {}', lambda t: _one(t.body[0].names))], _is('alias')),
    'ImportFrom_name':    ([_c('from _z import {}', lambda t: _one(t.body[0].names))], _is('alias')),
    '_aliases':           ([_c('import {}', lambda t: t.body[0].names), _c('from _z import ({}\n)', lambda t: t.body[0].names), _c('import {}', lambda t: t.body[0].names, True)], _is('_aliases')),
    '_Import_names':      ([_c('import {}', lambda t: t.body[0].names), _c('import {}', lambda t: t.body[0].names, True)], _is('_aliases')),
    '_ImportFrom_names':  ([_c('from _z import ({}\n)', lambda t: t.body[0].names)], _is('_aliases')),
    'withitem':           ([_c('with {}, _z: pass', lambda t: t.body[0].items[0])], _is('withitem')),
    '_withitems':         ([_c('with ({}\n): pass', lambda t: t.body[0].items), _c('with {}: pass', lambda t: t.body[0].items)], _is('_withitems')),
    'pattern':            (_PAT, lambda a: isinstance(a, ast.pattern)),
    'MatchSequence':      (_PAT, _is('MatchSequence')),
    'MatchMapping':       (_PAT, _is('MatchMapping')),
    'MatchClass':         (_PAT, _is('MatchClass')),
    'MatchOr':            (_PAT, _is('MatchOr')),
    'MatchAs':            (_PAT, _is('MatchAs')),
    'MatchValue':         (_PAT, _is('MatchValue')),
    '_pattern_attrlikes': ([_c('match _z:\n case _z({}\n ): pass', lambda t: (lambda p: p.patterns + p.kwd_patterns)(t.body[0].cases[0].pattern))], _is('_pattern_attrlikes')),
    'type_param':         ([_c('def _z[{}\n](): pass', lambda t: _one(t.body[0].type_params))], lambda a: isinstance(a, ast.type_param)),
    '_type_params':       ([_c('def _z[{}\n](): pass', lambda t: t.body[0].type_params)], _is('_type_params')),
}
MODE_NAMES = [m_ for m_ in MODES if m_ != 'all']      # coercion targets ('all' is a parse mode only, used by C05-P2)

# operand rows: (fragment, its own mode, host template / path for the non-root form or None)
_HE = ('_y = {}', lambda r: r.body[0].value)
_HP = ('match _y:\n case {}: pass', lambda r: r.body[0].cases[0].pattern)
ROWS = [
    ('a', 'expr', _HE), ('a.b', 'expr', _HE), ('(a, b)', 'expr', _HE), ('a, b', 'expr', _HE), ('[a, b]', 'expr', _HE), ('{a, b}', 'expr', _HE), ('{a: b}', 'expr', _HE),
    ('{"k": a, **b}', 'expr', _HE), ('f(a, b=c)', 'expr', _HE), ('f(a, *b, c=d, **e)', 'expr', _HE), ('a + b', 'expr', _HE), ('a | b', 'expr', _HE), ('-1', 'expr', _HE),
    ('1 + 2j', 'expr', _HE), ('"s"', 'expr', _HE), ('None', 'expr', _HE), ('()', 'expr', _HE), ('[]', 'expr', _HE), ('(a,)', 'expr', _HE), ('[a, [b, (c, d)]]', 'expr', _HE),
    ('(a,  # c1\n b,\n)', 'expr', _HE), ('[ "é" , b ]', 'expr', _HE), ('a[b]', 'expr', _HE), ('(yield)', 'expr', _HE), ('a if b else c', 'expr', _HE),
    ('lambda: a', 'expr', _HE), ('(a := b)', 'expr', _HE), ('a, *b', 'expr', _HE), ('[a, *b]', 'expr', _HE),
    ('d, a if b else c', 'expr', _HE), ('[d, lambda: x]', 'expr', _HE), ('(d, e := f)', 'expr', _HE), ('[a if b else c]', 'expr', _HE), ('f(a if b else c, *d)', 'expr', _HE),
    ('(f)(a)', 'expr', _HE), ('{...: a}', 'expr', _HE), ('(a | b) | c', 'expr', _HE), ('a | (b | c)', 'expr', _HE), ('f(x for x in y)', 'expr', _HE), ('(a.b)(c, d=e)', 'expr', _HE),
    ('**P, T', '_type_params', None), ('T, **P', '_type_params', None),
    ('(\na\n)\n, b', 'expr', None), ('(\n a\n), (b\n)', 'expr', None), ('(\na\n)\n, b', 'pattern', None),
    ('*a', 'expr_arglike', None), ('a:b', 'expr_slice', None), ('*a', 'expr_all', None), ('*a,', 'expr_all', None), ('*a\n ,', 'expr_all', None), ('*ab  # c\n  ,', 'expr_all', None), ('a:b, *c', 'expr_all', None),
    ('*not a', 'expr_all', None), ('a:b:c', 'expr_all', None), ('*a\n ,', 'all', None), ('a = 1', 'all', None), ('a, b', 'all', None), ('a = b', 'stmt', None), ('a', 'stmt', None), ('a, b', 'stmt', None), ('a\nb', 'exec', None), ('a', 'exec', None),
    ('a = b =', '_Assign_targets', None), ('a, b = c.d =', '_Assign_targets', None), ('@a\n@b.c', '_decorator_list', None), ('@a(b)', '_decorator_list', None),
    ('a, *b, c=d', '_arglikes', None), ('a, b', '_arglikes', None), ('a, **b', '_arglikes', None), ('*a, b', '_arglikes', None), ('a, *b, c, d=e, **f', '_arglikes', None), ('a=b, *c', '_arglikes', None), ('if a if b', '_comprehension_ifs', None), ('if a', '_comprehension_ifs', None),
    ('for a in b', 'comprehension', None), ('for a in b if c', 'comprehension', None), ('for a in b for c in d', '_comprehensions', None),
    ('a, b=c', 'arguments', None), ('a, b', 'arguments', None), ('*b, c=1, d', 'arguments', None), ('a, *b, c, d=1', 'arguments', None), ('a, b=1, *c, d=2, **e', 'arguments', None), ('*, c=1', 'arguments', None), ('a, /, b, *c, d, **e', 'arguments', None), ('*a', 'arguments', None), ('a', 'arguments_lambda', None),
    ('a: int', 'arg', None), ('a', 'arg', None), ('a=b', 'keyword', None), ('**a', 'keyword', None), ('a as b', 'alias', None), ('a.b', 'alias', None), ('a', 'alias', None),
    ('a, b as c', '_aliases', None), ('a.b, c', '_aliases', None), ('a as b', 'withitem', None), ('a', 'withitem', None), ('a as b, c', '_withitems', None), ('a, b', '_withitems', None),
    ('[a, *b]', 'pattern', _HP), ('(a, b)', 'pattern', _HP), ('a, b', 'pattern', _HP), ('{"k": a, **b}', 'pattern', _HP), ('{1: a}', 'pattern', _HP), ('C(a, k=b)', 'pattern', _HP), ('C()', 'pattern', _HP),
    ('a | b', 'pattern', _HP), ('1', 'pattern', _HP), ('-1', 'pattern', _HP), ('"s"', 'pattern', _HP), ('None', 'pattern', _HP), ('a.b', 'pattern', _HP), ('x as y', 'pattern', _HP),
    ('a', 'pattern', _HP), ('[a, [b, c]]', 'pattern', _HP), ('1 + 2j', 'pattern', _HP),
    ('a, k=b', '_pattern_attrlikes', None), ('T', 'type_param', None), ('T: int', 'type_param', None), ('*T', 'type_param', None), ('**T', 'type_param', None), ('T, *U', '_type_params', None),
]

_KW = set(keyword.kwlist) - {'None', 'True', 'False'}


def leaves(src: str):
    """identifier / constant tokens in source order: names as text, numbers and strings by value"""
    out = []
    try:
        for t in tokenize.generate_tokens(io.StringIO(src.rstrip().rstrip(chr(92))).readline):     # a fragment may end in a line continuation (special slices)
            if t.type == tokenize.NAME and t.string not in _KW:
                out.append(t.string)
            elif t.type == tokenize.NUMBER:
                out.append(repr(ast.literal_eval(t.string)))
            elif t.type == tokenize.STRING:
                out.append(repr(ast.literal_eval(t.string)))
    except tokenize.TokenError as e:
        if 'EOF' not in str(e):      # an open bracket / continuation at the end of a FRAGMENT is not an error of the fragment
            return None
    except (IndentationError, SyntaxError, ValueError):
        return None
    return out


def pure(a):
    """own copy without any attributes or links (a 'pure AST')"""
    if isinstance(a, list):
        return [pure(x) for x in a]
    if not isinstance(a, ast.AST):
        return a
    return type(a)(**{f: pure(getattr(a, f)) for f in a._fields if hasattr(a, f)})


def _elements(a):
    """elements of a pfst container node in source order, or the node itself"""
    n = type(a).__name__
    if n == '_pattern_attrlikes':
        return list(a.patterns) + list(a.kwd_patterns), list(a.kwd_attrs)
    if n.startswith('_') and len(a._fields) == 1:
        return list(getattr(a, a._fields[0])), None
    return a, None


def _cmp_candidate(got, src, cand):
    """-> None if CPython's parse of the candidate construct agrees with got (structure and relative positions), else (kind, detail)"""
    emb, path, (l0, c0), joined, wraps = cand
    if joined:
        src = _join(src)
    if isinstance(got, list) and not got:      # empty special slice: nothing but blanks / comments may be there
        return None if pc.tokens(src) is not None and not [t for t in pc.tokens(src) if t[0] != 'COMMENT'] else ('empty_container_with_tokens_in_source', src)
    try:
        ref = path(ast.parse(emb.format(src)))
    except (SyntaxError, IndexError, AttributeError, ValueError) as e:
        return 'result_does_not_parse_in_requested_mode', str(e)[:120]
    if isinstance(got, list):
        if not isinstance(ref, list) or len(ref) != len(got):
            return 'element_count_differs_from_python_parse', (len(got), len(ref) if isinstance(ref, list) else None)
        pairs = list(zip(got, ref))
    else:
        if isinstance(ref, list):
            return 'single_node_expected', len(ref)
        pairs = [(got, ref)]
    for g, f_ in pairs:
        d1, d2 = ast.dump(g), ast.dump(f_)
        if d1 != d2:
            return 'structure_differs_from_python_parse_of_result_text', pc._first_diff(d2, d1)
        for x, y in zip(ast.walk(g), ast.walk(f_)):
            if wraps and x is g and isinstance(g, (ast.MatchSequence, ast.Tuple)):
                continue
            if hasattr(y, 'end_col_offset') and hasattr(x, 'end_col_offset'):
                ey = (y.lineno - l0 + 1, y.col_offset - (c0 if y.lineno == l0 else 0), y.end_lineno - l0 + 1, y.end_col_offset - (c0 if y.end_lineno == l0 else 0))
                ex = (x.lineno, x.col_offset, x.end_lineno, x.end_col_offset)
                if ex != ey:
                    return 'positions_differ_from_python_parse_of_result_text', (type(y).__name__, ex, ey)
    return None


def top_level_comma(src: str):
    """is there a comma outside every bracket? (then an expression fragment is a tuple, whatever construct it is placed in)"""
    depth = 0
    try:
        for t in tokenize.generate_tokens(io.StringIO(src.rstrip().rstrip(chr(92))).readline):
            if t.type == tokenize.OP:
                if t.string in '([{':
                    depth += 1
                elif t.string in ')]}':
                    depth -= 1
                elif t.string == ',' and depth == 0:
                    return True
    except tokenize.TokenError as e:
        if 'EOF' not in str(e):
            return None
    except (IndentationError, SyntaxError):
        return None
    return False


EXPR_MODES = {'expr', 'expr_all', 'expr_arglike', 'expr_slice', 'Tuple', 'List', 'Set', 'Dict', 'Name', 'Call', 'Attribute', 'Constant', 'all'}


def mode_oracle(r: FST, mode: str, sig, where):
    """O-mode: CPython's parse of a construct containing r.src agrees with r.a"""
    cands, kind = MODES[mode]
    src = r.src
    if mode in EXPR_MODES and isinstance(r.a, ast.expr):
        tc = top_level_comma(src)
        check(not tc or isinstance(r.a, ast.Tuple), sig + '.bare_comma_but_not_a_tuple', (where, src, type(r.a).__name__))
    check(kind(r.a), sig + '.result_is_not_of_the_requested_kind', (where, type(r.a).__name__))
    check(r.is_root and r.parent is None, sig + '.result_is_not_standalone', where)
    got, _kwd = _elements(r.a)
    first = None
    for cand in cands:
        res = _cmp_candidate(got, src, cand)
        if res is None:
            break
        if first is None or first[0] == 'result_does_not_parse_in_requested_mode':
            first = res
    else:
        fail(sig + '.' + first[0], (where, src, first[1]))
    pc.links_ok(r, sig + '.links')


def _mk_row(ri):
    frag, smode, host = ROWS[ri]
    forms = 3 if host is not None else 2       # 0 root FST, 1 pure AST, 2 non-root FST

    def fn(m: int, form: int, cp: bool):
        assume(0 <= m < len(MODE_NAMES) and 0 <= form < forms)
        mode = MODE_NAMES[pc.pin(m, 0, len(MODE_NAMES) - 1)]
        form = pc.pin(form, 0, forms - 1)
        where = (frag, smode, mode, ('root', 'ast', 'nonroot')[form], cp)
        sig = 'coerce'
        with pc.untraced():
            base = FST(frag, smode)
            pc.reset_globals()
            lv0 = leaves(frag)
            same_kind = MODES[mode][1](base.a) and not any(isinstance(n_, (ast.Slice, ast.Starred)) for n_ in ast.walk(base.a)) and mode in ('expr', 'Tuple', 'List', 'Set', 'Dict', 'Name', 'Call', 'Attribute', 'Constant', 'stmt', 'pattern', 'MatchSequence',
                                                            'MatchMapping', 'MatchClass', 'MatchOr', 'MatchAs', 'MatchValue', 'arg', 'keyword', 'alias', 'withitem', 'comprehension',
                                                            'arguments', 'type_param', '_Assign_targets', '_decorator_list', '_arglikes', '_comprehensions', '_comprehension_ifs',
                                                            '_aliases', '_withitems', '_pattern_attrlikes', '_type_params')
            if form == 2:
                hroot = FST(host[0].format(frag), 'exec')
                opnd = host[1](hroot)
                keep = hroot
            elif form == 0:
                opnd = keep = base
            else:
                opnd = pure(base.a)
                keep = None
            if keep is not None:
                src0 = keep.src
                dump0 = ast.dump(keep.a, include_attributes=True)
        try:
            with FST.options(**pc.OPTS):
                if form == 1:
                    r = FST(opnd, mode)
                else:
                    r = opnd.as_(mode, copy=cp)
        except pc.EXPECTED_RAISES + (TypeError, AssertionError, AttributeError, KeyError):
            with pc.untraced():
                if form == 2 or (form == 0 and cp):
                    check(keep.src == src0, sig + '.failed_copy_mode_coercion_changed_operand_source', where)
                    check(ast.dump(keep.a, include_attributes=True) == dump0, sig + '.failed_copy_mode_coercion_changed_operand_tree', where)
                if same_kind and form != 1:
                    fail(sig + '.operand_of_requested_kind_refused', where)
            cover('raise')
            return
        with pc.untraced():
            if same_kind and form == 0 and not cp:
                check(r is opnd, sig + '.node_of_requested_kind_not_returned_as_is', where)
            if form == 2 or (form == 0 and (cp or same_kind)):
                check(keep.src == src0, sig + '.copy_mode_coercion_changed_operand_source', (where, keep.src))
                check(ast.dump(keep.a, include_attributes=True) == dump0, sig + '.copy_mode_coercion_changed_operand_tree', where)
                if not (same_kind and form == 0 and not cp):
                    check(r is not keep and r.root is not keep, sig + '.copy_mode_result_shares_operand_tree', where)
            mode_oracle(r, mode, sig, where)
            lv1 = leaves(r.src)
            check(lv1 is not None and lv1 == lv0, sig + '.leaf_names_or_constants_differ_from_operand', (where, r.src, lv0, lv1))
            if form == 1:      # O-forms: compare with the formatted operand's coercion
                try:
                    r2 = FST(frag, smode).as_(mode, **pc.OPTS)
                except pc.EXPECTED_RAISES + (TypeError, AssertionError, AttributeError, KeyError):
                    r2 = None
                if r2 is not None:
                    d1, d2 = ast.dump(r.a), ast.dump(r2.a)
                    check(d1 == d2, sig + f'.pure_ast_and_formatted_operand_coerce_differently:{frag}:{smode}:Tuple!=List' if d1.replace('List(', 'Tuple(') == d2.replace('List(', 'Tuple(')
                          else sig + f'.pure_ast_and_formatted_operand_coerce_differently:{frag}:{smode}', (where, r.src, r2.src, pc._first_diff(d2, d1)))
        cover('ok')
    return fn


# ---------------------------------------------------------------------------------------------------------------- P2
# (target source, path to container, field, natural mode of what is put, operand rows (fragment, mode))
PUTS = [
    ('f(x, y)\n', lambda r: r.body[0].value, '_args', '_arglikes', [('(a, b)', 'expr'), ('[a, *b]', 'expr'), ('a, b', 'expr'), ('{a, b}', 'expr'), ('a, k=b', '_pattern_attrlikes'), ('[a, b]', 'pattern'), ('a, *b, c=d', '_arglikes')]),
    ('[x, y]\n', lambda r: r.body[0].value, 'elts', 'Tuple', [('a, *b', '_arglikes'), ('{a, b}', 'expr'), ('[a, b]', 'pattern'), ('a, b', '_withitems'), ('@a\n@b', '_decorator_list'), ('a = b =', '_Assign_targets')]),
    ('@x\ndef g(): pass\n', lambda r: r.body[0], 'decorator_list', '_decorator_list', [('(a, b.c)', 'expr'), ('[a, b]', 'expr'), ('a, b', '_arglikes'), ('@a\n@b', '_decorator_list')]),
    ('x = y = z\n', lambda r: r.body[0], 'targets', '_Assign_targets', [('(a, b)', 'expr'), ('[a, b.c]', 'expr'), ('a, b', '_withitems'), ('a = b =', '_Assign_targets')]),
    ('with x, y: pass\n', lambda r: r.body[0], 'items', '_withitems', [('(a, b)', 'expr'), ('[a, b]', 'expr'), ('a, b', '_arglikes'), ('a as b, c', '_withitems')]),
    ('import x, y\n', lambda r: r.body[0], 'names', '_Import_names', [('(a, b.c)', 'expr'), ('[a, b]', 'expr')]),
    ('from m import x, y\n', lambda r: r.body[0], 'names', '_ImportFrom_names', [('(a, b)', 'expr'), ('[a, b]', 'expr')]),
    ('[_ for _ in _ if x if y]\n', lambda r: r.body[0].value.generators[0], 'ifs', '_comprehension_ifs', [('(a, b)', 'expr'), ('[a, b]', 'expr'), ('a, b', '_arglikes')]),
    ('def g[X, Y](): pass\n', lambda r: r.body[0], 'type_params', '_type_params', [('(a, b)', 'expr'), ('[a, b]', 'expr')]),
    ('match v:\n case [x, y]: pass\n', lambda r: r.body[0].cases[0].pattern, 'patterns', 'MatchSequence', [('(a, b)', 'expr'), ('[a, 1]', 'expr'), ('a, b', '_arglikes')]),
    ('def g(x, y): pass\n', lambda r: r.body[0].args, '_all', 'arguments', [('(a, b)', 'expr'), ('[a, b]', 'expr')]),
]


def _mk_put(pi):
    tsrc, tpath, field, mode, opnds = PUTS[pi]

    def fn(oi: int, start: int, stop: int, co: bool):
        assume(0 <= oi < len(opnds) and 0 <= start <= stop <= 2)
        frag, smode = opnds[pc.pin(oi, 0, len(opnds) - 1)]
        start, stop = pc.pin(start, 0, 2), pc.pin(stop, 0, 2)
        where = (tsrc, field, frag, smode, start, stop)
        with pc.untraced():
            root = FST(tsrc, 'exec')
            pc.reset_globals()
            dump0 = ast.dump(root.a, include_attributes=True)
            # reference structure: put of the explicitly converted node into a second copy of the target
            try:
                conv = FST(frag, smode).as_(mode)
                root2 = FST(tsrc, 'exec')
                with FST.options(**pc.OPTS):
                    tpath(root2).put_slice(conv, start, stop, field)
                exp = ast.dump(root2.a)
            except pc.EXPECTED_RAISES + (TypeError, AssertionError, AttributeError, KeyError):
                exp = None
            pc.reset_globals()
            code = FST(frag, smode)
            needs = smode != mode       # rows whose own mode is the field's natural mode need no coercion
        try:
            with FST.options(**pc.OPTS):
                tpath(root).put_slice(code, start, stop, field, coerce=co)
        except pc.EXPECTED_RAISES + (TypeError, AssertionError, AttributeError, KeyError) as e:
            with pc.untraced():
                check(root.src == tsrc, 'coerce_put.failed_put_changed_source', (where, co, root.src))
                check(ast.dump(root.a, include_attributes=True) == dump0, 'coerce_put.failed_put_changed_tree', (where, co))
                if not needs and exp is not None:
                    fail('coerce_put.operand_of_the_natural_kind_refused', (where, co, type(e).__name__, str(e)[:150]))
                if co and exp is not None:
                    fail('coerce_put.put_refuses_what_explicit_conversion_accepts', (where, type(e).__name__, str(e)[:150]))
            cover('raise')
            return
        with pc.untraced():
            pc.o_parse(root, 'coerce_put')
            if exp is not None:
                got = ast.dump(root.a)
                check(got == exp, 'coerce_put.structure_differs_from_put_of_explicitly_converted_node', (where, co, pc.R(root.src), pc._first_diff(exp, got)))
            pc.links_ok(root, 'coerce_put.links')
        cover('ok')
    return fn


# ---------------------------------------------------------------------------------------------------------------- T1
def _as(path, mode):
    def script(root):
        return path(root).copy().as_(mode)
    return script


def _put_as(spath, dpath, field, start=0, stop=None):
    def script(root):
        with FST.options(**pc.OPTS):
            dpath(root).put_slice(spath(root).copy(), start, stop, field)
    return script


_V = lambda r: r.body[0].value     # noqa: E731
LETTER = {
    'tuple_to_list':        ('("¡", b, "c¢")  # £\n', _as(_V, 'List'), 'quick'),
    'tuple_to_set':         ('("¡a", "¢")  # £\n', _as(_V, 'Set'), 'thorough'),
    'list_to_tuple':        ('[ "¡" , b, "¢¢" ]\n', _as(_V, 'Tuple'), 'quick'),
    'baretuple_to_list':    ('"¡", b, "¢"  # £\n', _as(_V, 'List'), 'quick'),
    'multiline_tuple_list': ('("¡",  # ¢\n b, "£")\n', _as(_V, 'List'), 'quick'),
    'set_to_list':          ('{"¡", "¢" }\n', _as(_V, 'List'), 'thorough'),
    'dict_to_dict':         ('{"¡": a, "k": "¢"}\n', _as(_V, 'Dict'), 'thorough'),
    'call_to_expr':         ('f("¡", k="¢")\n', _as(_V, 'expr'), 'thorough'),
    'tuple_into_call_args': ('("¡", b, "¢")  # £\nf(x, "¤")\n', _put_as(_V, lambda r: r.body[1].value, '_args', 1, 2), 'quick'),
    'list_into_call_args':  ('["¡", *b, "¢"]\nf(x, "£", y)\n', _put_as(_V, lambda r: r.body[1].value, '_args', 1, 2), 'quick'),
    'tuple_into_decos':     ('(a("¡"), b)  # ¢\n@x("£")\ndef g(): pass\n', _put_as(_V, lambda r: r.body[1], 'decorator_list', 0, 1), 'quick'),
    'tuple_into_targets':   ('(a["¡"], b)  # ¢\nx["£"] = y = z\n', _put_as(_V, lambda r: r.body[1], 'targets', 1, 2), 'quick'),
    'tuple_into_withitems': ('(a("¡"), b)  # ¢\nwith x("£"), y: pass\n', _put_as(_V, lambda r: r.body[1], 'items', 1, 2), 'quick'),
    'list_into_compifs':    ('[a("¡"), b]  # ¢\n[_ for _ in _ if x("£") if y]\n', _put_as(_V, lambda r: r.body[1].value.generators[0], 'ifs', 0, 1), 'thorough'),
    'call_args_into_list':  ('f("¡", *b, "¢")\n[x, "£", y]\n', lambda r: r.body[1].value.put_slice(r.body[0].value.get_slice(0, 3, '_args'), 1, 2, 'elts', **pc.OPTS) and None, 'quick'),
    'list_into_matchseq':   ('["¡", 1, "¢"]  # £\nmatch v:\n case ["¤", y]: pass\n', _put_as(_V, lambda r: r.body[1].cases[0].pattern, 'patterns', 0, 1), 'thorough'),
    'dict_into_matchmap':   ('{"¡": a, "¢": b}\nmatch v:\n case {"£": y}: pass\n', lambda r: r.body[1].cases[0].pattern.replace(r.body[0].value.copy()) and None, 'thorough'),
}

FNC = ['fst.fst.FST.as_', 'fst.code.code_as', 'fst.code._coerce_to_expr_ast', 'fst.code._coerce_to_seq', 'fst.code._coerce_to_List', 'fst.code._coerce_to__arglikes', 'fst.code._coerce_to__Assign_targets',
       'fst.code._coerce_to__decorator_list', 'fst.code._coerce_to__comprehension_ifs', 'fst.code._coerce_to__aliases_common', 'fst.code._coerce_to_pattern_ast', 'fst.code._coerce_to_arg',
       'fst.code._coerce_to_keyword', 'fst.code._coerce_to_alias', 'fst.fst_misc._fix_undelimited_seq', 'fst.fst_misc._delimit_node', 'fst.fst_core._put_src']
CELLS = []
_QROWS = {'d, a if b else c', '[d, lambda: x]', '(d, e := f)','*a, b', 'a, *b, c, d=e, **f', '*b, c=1, d', 'a, *b, c, d=1', 'a', '(a, b)', 'a, b', '[a, b]', 'f(a, b=c)', '(a,  # c1\n b,\n)', '[ "é" , b ]', 'a, *b, c=d', '@a\n@b.c', 'a = b =', 'a, b as c', 'a as b, c', '[a, *b]', 'C(a, k=b)', 'a, b=c', 'T, *U', 'if a if b',
          '{"k": a, **b}', 'a | b', '-1'}
for _i, (_f, _m, _h) in enumerate(ROWS):
    CELLS.append(Cell(f'P1.coerce[{_f!r}:{_m}]', _mk_row(_i), 'P', FNC,
                      f'operand {_f!r} (mode {_m}); target mode symbolic over the {len(MODE_NAMES)} listed modes, operand form symbolic over root FST / pure AST'
                      + (' / non-root FST' if _h else '') + ', copy flag symbolic (finite choice, solver-enumerated)',
                      tier='quick' if (_f in _QROWS) else 'thorough', budget=600, per_path=120,
                      out='operands outside the table; modes ExceptHandler/match_case/operator kinds (nothing coerces to them); options other than defaults', reset=pc.reset_globals))
for _i, _p in enumerate(PUTS):
    CELLS.append(Cell(f'P2.coerce_put[{_p[0].strip()!r}.{_p[2]}]', _mk_put(_i), 'P', FNC + ['fst.fst_put_slice._put_slice'],
                      f'target {_p[0]!r} field {_p[2]} (natural mode {_p[3]}); operand symbolic over {[o[0] for o in _p[4]]}, slice bounds symbolic in 0..2, coerce option symbolic',
                      tier='quick', budget=600, per_path=120, reset=pc.reset_globals))
for _n, (_src, _scr, _tier) in LETTER.items():
    CELLS.append(tletter.letter_cell('T1', _n, _src, _scr, tier=_tier))
