"""Shape-T harnesses for the position-offset primitive (fst_core._offset) — shared by C01 / C02 / C11.

"Symbolic re-layout of a parsed carrier": a carrier source is parsed by CPython, which fixes the tree shape and which
endpoints share a line; then every distinct column on every line is replaced by a fresh symbolic integer, constrained only
to keep the relative order CPython reported (>= 0, strictly increasing along each line). The real `_offset` code then runs
on that tree for a symbolic splice (start, end, number of put lines, length of the last put line). One exhausted path
tree therefore covers EVERY column layout of that line structure, every spot and every size of change — the statement
"no early break in _offset ever skips a node that has to move" for all of them.
"""
import ast
import inspect

from engine.h import Cell, assume, check, cover, pos_le, pos_lt
from harness.pcommon import pin, reset_globals, untraced, R

from fst import FST

SRCS = {
    'tuple':   'x = (a, bb)\ny\n',
    'call':    'r = f(a, *b, k=v, **d)\n',
    'call3kw': 'r = f(x=1, *b, p=2, q=3, s=4)\n',
    'call3st': 'r = f(k=1, *a, *b, *c)\n',
    'deco2':   '@d1\n@d2 (q)\ndef f(a, b=1):\n    return a\nz\n',
    'cls':     '@dd\nclass C(A, k=v):\n    x = 1\n',
    'binop':   'v = -a + b . c * (d)\n',
    'ifelse':  'if a:\n    b\nelif c:\n    d\nelse:\n    e\n',
    'multi':   'x = [a,\n     b, c,\n     d]\nw\n',
    'lam':     'g = lambda p, *q, r=1: p + r\n',
    'dict':    'd = {a: 1, **b, c: 3}\n',
    'cmp':     'x = a<b is not c\n',
    'with':    'with a as x, b:\n    pass\n',
    'comp':    'x = [i for i in z if p]\n',
    'sub':     'x[a:b, c] = y\n',
}


def _posnodes(t):
    return [n for n in ast.walk(t) if hasattr(n, 'end_col_offset')]


class Layout:
    def __init__(self, src):
        self.src = src
        t = ast.parse(src)
        self.nlines = len(src.split('\n'))
        nodes = _posnodes(t)
        pts = sorted({(n.lineno, n.col_offset) for n in nodes} | {(n.end_lineno, n.end_col_offset) for n in nodes})
        self.pts = pts
        self.idx = {p: i for i, p in enumerate(pts)}
        self.nn = len(nodes)
        # relations (by walk index)
        par = {}
        for i, n in enumerate(nodes):
            for c in ast.iter_child_nodes(n):
                stack = [c]
                while stack:   # children without positions (arguments, operators, comprehension...) are transparent
                    c2 = stack.pop()
                    if hasattr(c2, 'end_col_offset'):
                        par[id(c2)] = i
                    else:
                        stack.extend(ast.iter_child_nodes(c2))
        self.parent = [par.get(id(n)) for n in nodes]

    def ancestors_or_self(self, i):
        out = set()
        while i is not None:
            out.add(i)
            i = self.parent[i]
        return out

    def build(self, cols):
        """Fresh tree with symbolic columns. -> (root FST, nodes, original points per node)"""
        t = ast.parse(self.src)
        nodes = _posnodes(t)
        orig = []
        for n in nodes:
            s0 = (n.lineno, n.col_offset)
            e0 = (n.end_lineno, n.end_col_offset)
            orig.append((s0, e0))
            n.col_offset = cols[self.idx[s0]]
            n.end_col_offset = cols[self.idx[e0]]
        root = FST(t, [''] * self.nlines, None, indent='    ')
        return root, nodes, orig

    def assume_order(self, cols):
        prev = None
        for i, (l, c) in enumerate(self.pts):
            if prev is not None and prev[0] == l:
                assume(cols[i - 1] < cols[i])
            else:
                assume(cols[i] >= 0)
            prev = (l, c)


def _set_sig(fn, names):
    fn.__signature__ = inspect.Signature([inspect.Parameter(n, inspect.Parameter.POSITIONAL_OR_KEYWORD, annotation=int) for n in names])
    return fn


def _shift(p, e, dln, dco):
    l, c = p
    if l > e[0]:
        return (l + dln, c)
    return (l + dln, c + dco)   # only called for points on/after e on e's line


def make_putsrc_offset(key, poison=False):
    """The two-phase offset exactly as FST.put_src(action='offset') issues it (C11); with poison=True also the cache
    flush obligation (C02)."""
    lay = Layout(SRCS[key])
    K = len(lay.pts)

    def fn(*v):
        cols = v[:K]
        sl, sc, el, ec, npl, pl, si = v[K:]
        lay.assume_order(cols)
        assume(0 <= si < lay.nn)
        si_ = pin(si, 0, lay.nn - 1)
        root, nodes, orig = lay.build(cols)
        cur = [((n.lineno, n.col_offset), (n.end_lineno, n.end_col_offset)) for n in nodes]
        s, e = (sl, sc), (el, ec)
        assume(1 <= sl and 0 <= sc and 0 <= ec and pos_le(s, e))
        # the spot lies strictly inside `self` ...
        assume(pos_lt(cur[si_][0], s) and pos_lt(e, cur[si_][1]))
        anc = lay.ancestors_or_self(si_)
        # ... touches no other node's text (pure trivia of self): every non-ancestor node lies wholly before s or after e
        for j in range(lay.nn):
            if j not in anc:
                assume(pos_le(cur[j][1], s) or pos_le(e, cur[j][0]))
        assume(npl >= 1 and pl >= 0)
        dln = (npl - 1) - (el - sl)
        dco = pl - ec + (sc if npl == 1 else 0)
        if poison:
            for n in nodes:
                n.f._cache['poison'] = True
        selff = nodes[si_].f
        root._offset(el - 1, -ec, dln, dco, True, False, selff)
        selff._offset(el - 1, -ec, dln, dco, False, True, self_=False)
        nochange = (dln == 0 and dco == 0)
        for j, n in enumerate(nodes):
            (p0, p1) = cur[j]
            is_anc = j in anc
            # start
            if pos_lt(e, p0) or (p0 == e and not is_anc):
                x0 = _shift(p0, e, dln, dco)
            else:
                x0 = p0
            if pos_lt(e, p1) or (p1 == e and is_anc):
                x1 = _shift(p1, e, dln, dco)
            else:
                x1 = p1
            g0 = (n.lineno, n.col_offset)
            g1 = (n.end_lineno, n.end_col_offset)
            check(g0 == x0, f'offset.{key}.start_wrong', (type(n).__name__, orig[j]))
            check(g1 == x1, f'offset.{key}.end_wrong', (type(n).__name__, orig[j]))
            if poison and not nochange and (x0 != p0 or x1 != p1):
                # a node that moved, and every ancestor of it, must have lost its cached locations
                k = j
                while k is not None:
                    check('poison' not in nodes[k].f._cache, f'offset.{key}.stale_cache', (type(nodes[k]).__name__, orig[k], 'moved', orig[j]))
                    k = lay.parent[k]
        cover('ok')
    names = [f'c{i}' for i in range(K)] + ['sl', 'sc', 'el', 'ec', 'npl', 'pl', 'si']
    return _set_sig(fn, names), lay


def _moves_end(at, zero, tail, head, fwd):
    """docstring of _offset: does an END endpoint lying exactly AT the offset point move?"""
    if not at:
        return None
    if not zero:
        return tail is True
    if tail is True:
        return fwd or head is not False     # head=False "can stop tail from moving backward past it"
    if tail is None:
        return head is True and fwd         # "can be moved forward with head if head at same location"
    return False


def _moves_start(at, zero, tail, head, fwd):
    if not at:
        return None
    if not zero:
        return head is True
    if head is True:
        return (not fwd) or tail is not False   # tail=False "can stop head from moving forward past it"
    if head is None:
        return tail is True and not fwd
    return False


def make_offset_general(key, tail, head, family):
    """_offset with arbitrary (tail, head, exclude, offset_excluded, self_) against the behaviour its docstring defines (C01)."""
    lay = Layout(SRCS[key])
    K = len(lay.pts)
    TV = [True, False, None]

    def fn(*v):
        cols = v[:K]
        el, ec, dln, dco, xi, oe, se, ci = v[K:]
        lay.assume_order(cols)
        assume(-1 <= xi < lay.nn and 0 <= oe <= 1 and 0 <= se <= 1 and -1 <= ci < lay.nn)
        if family == 'root':     # called on the root (the documented normal use), any exclude
            assume(ci == -1 and se == 1)
        else:                    # called on an inner node with / without self_, no exclude
            assume(xi == -1 and oe == 1 and ci >= 0)
        xi_ = pin(xi, -1, lay.nn - 1)
        ci_ = pin(ci, -1, lay.nn - 1)
        offset_excluded = bool(pin(oe, 0, 1))
        self_ = bool(pin(se, 0, 1))
        root, nodes, orig = lay.build(cols)
        cur = [((n.lineno, n.col_offset), (n.end_lineno, n.end_col_offset)) for n in nodes]
        e = (el, ec)
        assume(el >= 1 and ec >= 0)
        # a real splice never leaves an endpoint inside removed text: when moving backward on the line nothing lies in (e + dco, e)
        assume(dln >= -(el - 1))
        assume(ec + dco >= 0)
        if dln == 0 and dco < 0:
            for (p0, p1) in cur:
                for p in (p0, p1):
                    assume(not (p[0] == el and ec + dco < p[1] < ec))
        if dln < 0:   # lines [el+dln, el) and the part of line el before the point are removed text (under-approximation: stated)
            for (p0, p1) in cur:
                for p in (p0, p1):
                    assume(not (el + dln <= p[0] < el) and not (p[0] == el and p[1] < ec))
        fwd = dln > 0 or (dln == 0 and dco >= 0)
        excl = nodes[xi_].f if xi_ >= 0 else None
        under_excl = set()
        excl_in_reach = xi_ >= 0 and (ci_ < 0 or ci_ in lay.ancestors_or_self(xi_))   # an exclude above the callee is never met
        if excl_in_reach:
            for j in range(lay.nn):
                if j != xi_ and xi_ in lay.ancestors_or_self(j):
                    under_excl.add(j)
        callee = root if ci_ < 0 else nodes[ci_].f
        callee._offset(el - 1, -ec, dln, dco, tail, head, excl, offset_excluded=offset_excluded, self_=self_)
        if ci_ >= 0 and ci_ == xi_ and not self_:
            under_excl = set(range(lay.nn))      # "elif self is exclude: return"
        outside = set()
        if ci_ >= 0:
            for j in range(lay.nn):
                if ci_ not in lay.ancestors_or_self(j) or (j == ci_ and not self_):
                    outside.add(j)
        for j, n in enumerate(nodes):
            (p0, p1) = cur[j]
            touched = not (j in under_excl or j in outside or (j == xi_ and excl_in_reach and not offset_excluded))
            if dln == 0 and dco == 0:
                touched = False
            zero = (p0 == p1)
            x0, x1 = p0, p1
            if touched:
                if pos_lt(e, p0) or (p0 == e and _moves_start(True, zero, tail, head, fwd)):
                    x0 = _shift(p0, e, dln, dco)
                if pos_lt(e, p1) or (p1 == e and _moves_end(True, zero, tail, head, fwd)):
                    x1 = _shift(p1, e, dln, dco)
            g0 = (n.lineno, n.col_offset)
            g1 = (n.end_lineno, n.end_col_offset)
            check(g0 == x0, f'offset_general.{key}.start_wrong', (type(n).__name__, orig[j], tail, head))
            check(g1 == x1, f'offset_general.{key}.end_wrong', (type(n).__name__, orig[j], tail, head))
        cover('ok')
    names = [f'c{i}' for i in range(K)] + ['el', 'ec', 'dln', 'dco', 'xi', 'oe', 'se', 'ci']
    return _set_sig(fn, names), lay


FN = ['fst.fst_core._offset', 'fst.astutil.syntax_ordered_children', 'fst.astutil._syntax_ordered_children_Call',
      'fst.astutil._syntax_ordered_children_ClassDef', 'fst.astutil._syntax_ordered_children_arguments']


def putsrc_offset_cells(prefix, poison, quick_keys):
    cells = []
    for key in SRCS:
        fn, lay = make_putsrc_offset(key, poison)
        cells.append(Cell(f'{prefix}.putsrc_offset[{key}]', fn, 'T', FN,
                          f'tree shape + line structure of {SRCS[key]!r}; ALL {len(lay.pts)} distinct columns symbolic over Z (order kept); '
                          f'splice start/end, number of put lines, last put line length: all integers; self = any of the {lay.nn} positioned nodes',
                          tier='quick' if key in quick_keys else 'thorough', budget=600, per_path=60,
                          assumptions=['the spot lies strictly inside self and inside no other node (pure trivia of self), as put_src(action="offset") documents',
                                       'AST positions already in bytes (byte/char mapping is the _params_offset kernel)'],
                          out='tree shapes / line structures other than the listed templates; zero-length positioned nodes', reset=reset_globals))
    return cells


def general_offset_cells(prefix, quick_keys):
    cells = []
    for key in SRCS:
        for family in ('root', 'inner'):
            for tail in (True, False, None):
                for head in (True, False, None):
                    fn, lay = make_offset_general(key, tail, head, family)
                    cells.append(Cell(f'{prefix}.offset_general[{key},{family},tail={tail},head={head}]', fn, 'T', FN,
                                      f'tree shape + line structure of {SRCS[key]!r}; ALL {len(lay.pts)} columns symbolic; offset point and deltas all integers; '
                                      f'tail={tail}, head={head}; ' + ('called on root, exclude = any node or None, offset_excluded boolean' if family == 'root'
                                                                       else 'called on any inner node, self_ boolean, no exclude'),
                                      tier='quick' if key in quick_keys and family == 'root' else 'thorough', budget=500, per_path=60,
                                      assumptions=['deltas never move an endpoint before column 0 / line 1 and never jump over another endpoint (a real splice cannot)'],
                                      out='other tree shapes; zero-length positioned nodes (never produced by a parse); exclude combined with a non-root callee',
                                      reset=reset_globals))
    return cells
