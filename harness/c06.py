"""C06 — every reported location denotes exactly the text of its node.

K1: bistr.c2b / b2c / lenbytes against UTF-8 prefix sums, strings of <= 3 arbitrary code points, incl. the cached path.
K2: source scanners next_frag / prev_frag against an independent character-class scanner, all code points.
T1: re-lettering queries: for EVERY Unicode scalar >= U+0080 at the marked positions, loc / bloc / pars / byte coordinates /
    own source of every node are the re-lettering of the CPython-validated marker answers (byte vs char coordinates agree).
T2: find_loc / find_contains_loc / find_in_loc on carriers with the query rectangle symbolic over Z^4 vs. a brute-force scan.
"""
import ast

from engine import symbistr  # noqa: F401
from engine.h import Cell, assume, check, cover, okcp, w8, fail
from harness import pcommon as pc
from harness import tletter

from fst import FST
from fst.astutil import bistr
from fst.common import next_frag, prev_frag

PROPERTY = 'C06'
THOROUGH_SCALE = 2.0


# ---------------------------------------------------------------------------------------------------------------- K1
def _mk_bistr(n):
    def k1(x0: int, x1: int, x2: int, ci: int, bi: int):
        xs = [x0, x1, x2][:n]
        for x in [x0, x1, x2][n:]:
            assume(x == 0)
        for x in xs:
            assume(okcp(x))
        s = ''
        for x in xs:
            s = s + chr(x)
        b = bistr(s) if n else bistr('')
        ws = [w8(x) for x in xs]
        tot = sum(ws)
        assume(0 <= ci <= n and 0 <= bi <= tot)
        cic = pc.pin(ci, 0, n)
        exp_b = sum(ws[:cic])
        check(b.lenbytes == tot, 'bistr.lenbytes', (xs,))
        check(b.c2b(ci) == exp_b, 'bistr.c2b', (xs, cic))
        check(b.c2b(ci) == exp_b, 'bistr.c2b_cached', (xs, cic))     # second call takes the cached lookup path
        # b2c: a byte index inside a character maps to the start of that character
        acc = 0
        exp_c = n
        for i, w in enumerate(ws):
            if bi < acc + w:
                exp_c = i
                break
            acc += w
        check(b.b2c(bi) == exp_c, 'bistr.b2c', (xs, bi))
        check(b.b2c(bi) == exp_c, 'bistr.b2c_cached', (xs, bi))
        check(b.b2c(b.c2b(ci)) == ci, 'bistr.roundtrip', (xs, cic))
        cover('ok')
    return k1


# ---------------------------------------------------------------------------------------------------------------- K2
def _is_sp(ch):
    return ch.isspace()


def ref_next_frag(l, col, end_col, comment, lcont):
    """independent scanner from the docstring: skip blanks; '#' starts a comment (returned whole only if comment=True);
    a backslash that is the last character is a line continuation (returned only if lcont is True); otherwise the
    maximal run of non-blank, non-'#', non-backslash characters."""
    n = end_col if end_col < len(l) else len(l)
    i = col
    while i < n and _is_sp(l[i]):
        i += 1
    if i >= n:
        return None
    ch = l[i]
    if ch == '#':
        return (i, l[i:n]) if comment else None
    if ch == '\\':
        return (i, '\\') if (lcont and i == n - 1) else None
    j = i
    while j < n and not _is_sp(l[j]) and l[j] != '#' and l[j] != '\\':
        j += 1
    return (i, l[i:j])


def _mk_next_frag(n, comment, lcont):
    def k2(x0: int, x1: int, x2: int, x3: int, col: int, end_col: int):
        xs = [x0, x1, x2, x3][:n]
        for x in [x0, x1, x2, x3][n:]:
            assume(x == 0)
        for x in xs:
            assume(okcp(x) and x != 10 and x != 13)
        l = ''
        for x in xs:
            l = l + chr(x)
        assume(0 <= col <= end_col <= n)
        col = pc.pin(col, 0, n)
        end_col = pc.pin(end_col, 0, n)
        got = next_frag([l], 0, col, 0, end_col, comment, lcont)
        exp = ref_next_frag(l, col, end_col, comment, lcont)
        if exp is None:
            check(got is None, 'next_frag.found_nothing_expected', (xs, col, end_col))
        else:
            check(got is not None, 'next_frag.missed', (xs, col, end_col))
            check(got.ln == 0 and got.col == exp[0] and got.src == exp[1], 'next_frag.wrong', (xs, col, end_col))
        # dual: prev_frag returns the LAST fragment a forward iteration yields
        last = None
        c = col
        while True:
            r = ref_next_frag(l, c, end_col, comment, lcont)
            if r is None:
                break
            last = r
            c = r[0] + len(r[1])
        gotp = prev_frag([l], 0, col, 0, end_col, comment, lcont)
        if last is None:
            check(gotp is None, 'prev_frag.found_nothing_expected', (xs, col, end_col))
        else:
            check(gotp is not None and gotp.col == last[0] and gotp.src == last[1], 'prev_frag.wrong', (xs, col, end_col))
        cover('ok')
    return k2


# ---------------------------------------------------------------------------------------------------------------- T1
def _queries(root):
    out = []
    lines = root._lines
    for i, n in enumerate(ast.walk(root.a)):
        f = n.f
        loc = f.loc
        if loc is None:
            continue
        tag = f'{i}:{type(n).__name__}'
        out.append((tag + '.loc', tuple(loc)))
        out.append((tag + '.bloc', tuple(f.bloc)))
        out.append((tag + '.start_bytes', ('B', f.lineno, f.col_offset)))
        out.append((tag + '.end_bytes', ('B', f.end_lineno, f.end_col_offset)))
        p = f.pars()
        out.append((tag + '.pars', (tuple(p), p.n) if p is not None else None))
        out.append((tag + '.src_at_loc', root.get_src(*loc)))
        # byte <-> char agreement on the node's own lines
        out.append((tag + '.c2b_start', ('B', loc[0] + 1, lines[loc[0]].c2b(loc[1]))))
        out.append((tag + '.b2c_of_col_offset', lines[loc[0]].b2c(f.col_offset) == loc[1]))
        out.append((tag + '.b2c_of_end_col_offset', lines[loc[2]].b2c(f.end_col_offset) == loc[3]))
    return out


def _validate_marker(root, sig):
    """marker text, concrete: pfst's answers vs CPython's own positions and source segments"""
    src = root.src
    t = ast.parse(src)
    for a, b in zip(ast.walk(t), ast.walk(root.a)):
        f = b.f
        if hasattr(a, 'end_col_offset'):
            check((f.lineno, f.col_offset, f.end_lineno, f.end_col_offset) == (a.lineno, a.col_offset, a.end_lineno, a.end_col_offset),
                  sig + '.byte_coordinates_differ_from_cpython', (type(a).__name__, (f.lineno, f.col_offset, f.end_lineno, f.end_col_offset),
                                                                 (a.lineno, a.col_offset, a.end_lineno, a.end_col_offset)))
            check(root.get_src(*f.loc) == ast.get_source_segment(src, a), sig + '.text_at_loc_differs_from_cpython', (type(a).__name__, tuple(f.loc)))
            p = f.parent
            while p is not None and p.loc is None:
                p = p.parent
            if p is not None:
                pl, fl = p.bloc, f.loc
                check((pl[0], pl[1]) <= (fl[0], fl[1]) and (fl[2], fl[3]) <= (pl[2], pl[3]), sig + '.child_outside_parent', (type(a).__name__, tuple(fl), tuple(pl)))


LETTER_Q = [
    ('multiline_def', 'def f(a="¡"):  # ¢\n    return "£" + a\nx = 1\n', 'quick'),
    ('multiline_call', 'r = g("¡",  # ¢\n      (b), "£")  # ¤\n', 'quick'),
    ('class_multi', 'class C("¡".__class__):\n    x = "¢"; y = (x)\n    # ¤\nz = "£"\n', 'thorough'),
    ('binop_par', 's = ("¡" +  # ¢\n     (a) * "£")\n', 'quick'),
    ('dict_ml', 'd = {"¡": 1,\n     **e, "¢": [\n "£"]}\n', 'thorough'),
    ('if_chain', 'if "¡" in s:  # ¢\n    pass\nelif "£":\n    pass\n', 'thorough'),
]


# ---------------------------------------------------------------------------------------------------------------- T2
FIND_SRCS = {
    'expr': 'x = (a + b) * c\ny\n',
    'block': 'if a:\n    b = [1,\n         2]\nc\n',
    'deco': '@d\ndef f(p, q=1): return p\n',
    'callmix': 'f(k=1, *a, *b, *c)\n',
}


def _mk_find(key, which):
    src = FIND_SRCS[key]

    def fn(ln: int, col: int, end_ln: int, end_col: int, flag: int):
        assume(0 <= flag <= 2)
        with pc.untraced():
            root = FST(src, 'exec')
            nodes = [n.f for n in ast.walk(root.a) if n.f.loc is not None]      # brute-force reference works on ast.walk, not on pfst traversal
            locs = [tuple(f.loc) for f in nodes]
            depth = []
            for f in nodes:
                d = 0
                g = f
                while g.parent:
                    g = g.parent
                    d += 1
                depth.append(d)
            nl = len(src.split('\n'))
            indeco = set()
            for n in ast.walk(root.a):
                for d in getattr(n, 'decorator_list', ()):
                    indeco.update(id(m.f) for m in ast.walk(d))
            deco_idx = {i for i, f in enumerate(nodes) if id(f) in indeco}
        assume(0 <= ln <= end_ln < nl and 0 <= col <= 12 and 0 <= end_col <= 12)
        assume(ln < end_ln or col < end_col)     # non-empty rectangle: which neighbour a zero-width location belongs to is not specified
        q = (pc.pin(ln, 0, nl - 1), pc.pin(col, 0, 12), pc.pin(end_ln, 0, nl - 1), pc.pin(end_col, 0, 12))

        def contains(L, Q):   # L contains Q
            return (L[0], L[1]) <= (Q[0], Q[1]) and (Q[2], Q[3]) <= (L[2], L[3])
        if which == 'contains':
            allow_exact = [False, True, 'top'][pc.pin(flag, 0, 2)]
            got = root.find_contains_loc(ln, col, end_ln, end_col, allow_exact)
            cands = [i for i, L in enumerate(locs) if contains(L, q) and (allow_exact or L != q)]
            # docstring: the innermost (lowest level) node which entirely contains the location; with exact matches
            # allowed and several nodes at exactly this location, 'top' selects the highest of those, True the lowest
            if not cands:
                check(got is None or got is root, 'find_contains.found_without_candidate', (q, allow_exact))
            else:
                check(got is not None, 'find_contains.missed', (q, allow_exact))
                gi = nodes.index(got) if got in nodes else -1
                check(gi in cands or got is root, 'find_contains.not_containing', (q, allow_exact, tuple(got.loc) if got.loc else None))
                if gi >= 0:
                    exact = [i for i in cands if locs[i] == q]
                    if exact and allow_exact == 'top' and gi in exact:
                        check(depth[gi] == min(depth[i] for i in exact), 'find_contains.top_not_highest', (q,))
                    elif not exact or gi not in exact:
                        # innermost: no other candidate strictly inside it that also contains q (other than exact ones handled above)
                        for i in cands:
                            if i != gi and contains(locs[gi], locs[i]) and locs[i] != locs[gi] and not (locs[i] == q and allow_exact == 'top'):
                                fail('find_contains.decorator_outside_parent_loc' if i in deco_idx else 'find_contains.not_innermost', (q, allow_exact, locs[gi], locs[i]))
        else:
            got = root.find_in_loc(ln, col, end_ln, end_col)
            cands = [i for i, L in enumerate(locs) if contains(q, L)]
            if not cands:
                check(got is None, 'find_in.found_without_candidate', (q,))
            else:
                check(got is not None, 'find_in.missed', (q,))
                gi = nodes.index(got)
                check(gi in cands, 'find_in.not_inside', (q, locs[gi]))
                # docstring: "First node in syntactic order which is entirely contained in the location" (highest level at that start)
                best = min(cands, key=lambda i: (locs[i][0], locs[i][1], depth[i]))
                check(gi == best, 'find_in.decorator_outside_parent_loc' if best in deco_idx else 'find_in.not_first_in_syntax_order', (q, locs[gi], locs[best]))
        cover('ok')
    return fn


CELLS = []
for _n in (0, 1, 2, 3):
    CELLS.append(Cell(f'K1.bistr[len={_n}]', _mk_bistr(_n), 'K', ['fst.astutil.bistr.c2b', 'fst.astutil.bistr.b2c', 'fst.astutil.bistr.lenbytes'],
                      f'string of {_n} arbitrary code points (any Unicode scalar value); every character index and every byte index', budget=600,
                      tier='quick' if _n <= 2 else 'thorough',
                      stubs=['bistr(...) construction bypassed (C str.__new__); the array() tables are real'], out='strings longer than 3'))
for _n in (1, 2, 3, 4):
    for _comment in (False, True):
        for _lcont in (False, True, None):
            CELLS.append(Cell(f'K2.frag[len={_n},comment={_comment},lcont={_lcont}]', _mk_next_frag(_n, _comment, _lcont), 'K',
                              ['fst.common.next_frag', 'fst.common.prev_frag'],
                              f'one line of {_n} arbitrary code points (no newline); all 0 <= col <= end_col <= {_n}; comment={_comment}, lcont={_lcont}; '
                              'next_frag vs independent scanner and prev_frag == last fragment of the forward iteration',
                              tier='quick' if _n <= 2 or (_n == 3 and _comment and _lcont) else 'thorough', budget=900, per_path=60,
                              out='lines longer than 4; multi-line spans (logical-line restriction)'))
for _name, _src, _tier in LETTER_Q:
    CELLS.append(tletter.letter_cell('T1', 'q_' + _name, _src, (lambda f: None), queries=_queries, tier=_tier, budget=600, validate=_validate_marker))
for _k in FIND_SRCS:
    for _w in ('contains', 'in'):
        CELLS.append(Cell(f'T2.find_{_w}[{_k}]', _mk_find(_k, _w), 'P', ['fst.fst.FST.find_contains_loc', 'fst.fst.FST.find_in_loc', 'fst.fst.FST.find_loc'],
                          f'carrier {FIND_SRCS[_k]!r}; query rectangle (ln, col, end_ln, end_col) symbolic within the source area (cols 0..12); allow_exact in {{False, True, "top"}}',
                          tier='quick' if _k in ('expr', 'callmix') else 'thorough', budget=600, per_path=60, out='other programs; rectangles outside the source', reset=pc.reset_globals))


# ---------------------------------------------------------------------------------------------------------------- P3
# pars(shared=None | False | True): "exactly the balanced grouping parentheses that belong to the node" — the three variants, asked in any order
# (they are cached per node), against a tokenize count of the balanced '(' ... ')' pairs directly around the node
import io as _io
import itertools as _it
import tokenize as _tk

PARS_SRCS = {
    'solo': 'r = call((a))\ns = f((i for i in j))\nclass c((b)): pass\nt = g(k for k in (m))\n',
    'nest': 'u = ((a) + ((b)), (c))\nv = f(((d)), e, (g))\nmatch w:\n    case c((y)): pass\n',
    'uni': 'é = f(("ñ"), ((ü)))  # ç\n',
}
_PERMS = list(_it.permutations((None, False, True)))


def _enclosing_pairs(src, node):
    """number of balanced parenthesis pairs DIRECTLY around the node's text (nothing but blanks between them and the node), by tokenize"""
    toks = [t for t in _tk.generate_tokens(_io.StringIO(src).readline) if t.type not in (_tk.NL, _tk.NEWLINE, _tk.INDENT, _tk.DEDENT, _tk.COMMENT, _tk.ENDMARKER)]
    lines = src.split('\n')
    s_ = (node.lineno, len(lines[node.lineno - 1].encode()[:node.col_offset].decode()))
    e_ = (node.end_lineno, len(lines[node.end_lineno - 1].encode()[:node.end_col_offset].decode()))
    i0 = next(i for i, t in enumerate(toks) if t.start == s_)
    i1 = next(i for i, t in enumerate(toks) if t.end == e_ and i >= i0)
    n = 0
    while i0 - n - 1 >= 0 and i1 + n + 1 < len(toks) and toks[i0 - n - 1].string == '(' and toks[i1 + n + 1].string == ')':
        n += 1
    return n


def _mk_pars(key):
    src = PARS_SRCS[key]

    def fn(k: int, pi: int):
        assume(0 <= pi < len(_PERMS))
        perm = _PERMS[pc.pin(pi, 0, len(_PERMS) - 1)]
        with pc.untraced():
            root = FST(src, 'exec')
            pc.reset_globals()
            nodes = [n for n in ast.walk(root.a) if isinstance(n, (ast.expr, ast.pattern)) and hasattr(n, 'end_col_offset') and not isinstance(n, (ast.Starred,))]
            ref_nodes = [n for n in ast.walk(ast.parse(src)) if isinstance(n, (ast.expr, ast.pattern)) and hasattr(n, 'end_col_offset') and not isinstance(n, (ast.Starred,))]
        assume(0 <= k < len(nodes))
        kk = pc.pin(k, 0, len(nodes) - 1)
        f = nodes[kk].f
        got = {}
        for sh in perm:
            p = f.pars() if sh is True else f.pars(shared=sh)
            got[sh] = (tuple(p), getattr(p, 'n', 0))
        with pc.untraced():
            fresh = {}
            for sh in (None, False, True):       # each variant asked FIRST on its own fresh tree
                g = [n for n in ast.walk(FST(src, 'exec').a) if isinstance(n, (ast.expr, ast.pattern)) and hasattr(n, 'end_col_offset') and not isinstance(n, (ast.Starred,))][kk].f
                p = g.pars() if sh is True else g.pars(shared=sh)
                fresh[sh] = (tuple(p), getattr(p, 'n', 0))
            tag = (key, type(nodes[kk]).__name__, kk, perm)
            for sh in (None, False, True):
                check(pc.R(got[sh]) == fresh[sh], 'pars.answer_depends_on_which_variant_was_asked_first', (tag, sh, pc.R(got[sh]), fresh[sh]))
            n_any = _enclosing_pairs(src, ref_nodes[kk])
            check(fresh[None][1] == n_any or fresh[None][1] == -1, 'pars.enclosing_count_differs_from_tokenize', (tag, fresh[None], n_any))     # -1: a solo generator-expression argument sharing the call's parentheses (CPython's extent includes them)
            check(0 <= max(fresh[False][1], 0) <= n_any, 'pars.own_count_exceeds_enclosing_pairs', (tag, fresh[False], n_any))
        cover('ok')
    return fn


for _k in PARS_SRCS:
    CELLS.append(Cell(f'P3.pars_variants[{_k}]', _mk_pars(_k), 'P', ['fst.fst.FST.pars'],
                      f'carrier {PARS_SRCS[_k]!r}: every expression / pattern node (symbolic ordinal) asked pars(shared=None), pars(shared=False), pars() in a symbolic order (6 permutations): '
                      'each answer equals the answer of a fresh tree asked that variant first; the enclosing count equals the tokenize count of balanced pairs directly around the node',
                      tier='quick', budget=600, per_path=60, reset=pc.reset_globals))
