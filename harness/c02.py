"""C02 — an edited tree is observationally identical to a fresh parse of its own source.

T1: cache flush inside _offset: on symbolically re-laid-out trees, every node that moves and every ancestor of it loses its
    cached answers (poisoned cache entries must be gone) — for all column layouts, spots and sizes.
P1: [read-only queries of a symbolic kind on ALL nodes] -> [edit with symbolic indices] -> every query on every node equals
    the same query on FST(root.src) built from scratch; root identity kept; links agree with a fresh walk.
P2: the same with comment / docstring accessors as the edit, and with NO edit at all (answers never depend on which
    queries were made before).
"""
import ast

from engine.h import Cell, assume, check, cover, fail
from harness import pcommon as pc
from harness import toffset

from fst import FST

PROPERTY = 'C02'
THOROUGH_SCALE = 2.0
THOROUGH_STRIDE = 2        # thorough tier = all quick cells + every 2th thorough-only cell (sized to run end-to-end; '--cells' reaches the others)

QKINDS = ['none', 'loc', 'bloc', 'pars', 'own_src', 'own_src_F', 'nav', 'views', 'all']
QK1 = ['none', 'bloc', 'pars', 'own_src', 'all']


def _q_one(f, kind):
    if kind in ('loc', 'all'):
        f.loc
    if kind in ('bloc', 'all'):
        f.bloc
    if kind in ('pars', 'all') and isinstance(f.a, (ast.expr, ast.pattern)):
        f.pars()
    if kind in ('own_src', 'all') and f.loc is not None:
        f.own_src()
    if kind in ('own_src_F',) and f.loc is not None:
        f.own_src(docstr=False)
    if kind in ('nav', 'all'):
        f.next(); f.prev(); f.first_child(); f.last_child()
    if kind in ('views', 'all'):
        for fld in f.a._fields:
            if isinstance(getattr(f.a, fld, None), list):
                len(getattr(f, fld))


def prequery(root, kind):
    if kind == 'none':
        return
    for n in ast.walk(root.a):
        _q_one(n.f, kind)


def _idx(f, order):
    return order.get(id(f)) if f is not None else None


def observe(root, order_first):
    """All answers a user can read, for every node, as plain data (node references as ast.walk ordinals).
    order_first selects the order in which the three own_src variants are asked (the answers must not depend on it)."""
    nodes = list(ast.walk(root.a))
    order = {id(n.f): i for i, n in enumerate(nodes)}
    out = []
    for i, n in enumerate(nodes):
        f = n.f
        rec = {'i': i, 'type': type(n).__name__}
        rec['loc'] = tuple(f.loc) if f.loc is not None else None
        rec['bloc'] = tuple(f.bloc) if f.bloc is not None else None
        if isinstance(n, (ast.expr, ast.pattern)):
            pv = {}
            for sh in ((None, False, True), (False, True, None), (True, None, False))[order_first % 3]:     # the three `shared` variants asked in a rotating order
                p = f.pars() if sh is True else f.pars(shared=sh)
                pv[sh] = (tuple(p), p.n) if p is not None else None
            rec['pars'] = (pv[True], pv[False], pv[None])
        if f.loc is not None:
            variants = [('d', None), ('F', False), ('T', True)]
            if order_first:
                variants = variants[order_first:] + variants[:order_first]
            own = {}
            for tag, v in variants:
                own[tag] = f.own_src() if v is None else f.own_src(docstr=v)
            rec['own'] = (own['d'], own['F'], own['T'])
            rec['bytes'] = (f.lineno, f.col_offset, f.end_lineno, f.end_col_offset)
            rec['text'] = root.get_src(*f.loc)
        rec['parent'] = _idx(f.parent, order)
        rec['pfield'] = tuple(f.pfield) if f.pfield else None
        rec['root'] = f.root is root
        rec['nav'] = (_idx(f.next(), order), _idx(f.prev(), order), _idx(f.first_child(), order), _idx(f.last_child(), order),
                      _idx(f.next(True), order), _idx(f.prev(True), order))
        views = {}
        for fld in n._fields:
            if isinstance(getattr(n, fld, None), list):
                views[fld] = len(getattr(f, fld))
        rec['views'] = views
        if isinstance(n, (ast.FunctionDef, ast.AsyncFunctionDef, ast.ClassDef, ast.Module)):
            rec['docstr'] = (bool(f.has_docstr), f.get_docstr())
        if isinstance(n, ast.stmt):
            rec['line_comment'] = f.get_line_comment()
        rec['is'] = (f.is_root, bool(f.is_parenthesized_tuple()) if isinstance(n, ast.Tuple) else None, f.is_stmt if hasattr(f, 'is_stmt') else None)
        out.append(rec)
    return out


def check_fresh(root, root0, sig, order_first=0):
    check(root is root0, sig + '.root_identity_lost')
    got = observe(root, order_first)            # traced: the live tree may still hold symbolic ints (pfield.idx, cached locs)
    with pc.untraced():
        src = pc.R(root.src)
        got = pc.R(got)
        fresh = FST(src, 'exec')
        exp = observe(fresh, 0)
        check(len(got) == len(exp), sig + '.node_count_differs_from_fresh_parse', (len(got), len(exp)))
        for g, e in zip(got, exp):
            if g != e:
                keys = [k for k in e if g.get(k) != e.get(k)]
                fail(sig + '.answer_differs_from_fresh_tree.' + keys[0], (src, g['type'], g['i'], keys, [(g.get(k), e.get(k)) for k in keys][:3]))
    pc.links_ok(root, sig)


def _mk_edit(cid, opname, k):
    c = pc.CARRIER[cid]

    def fn(q: int, a: int, b: int):
        assume(0 <= q < len(QK1))
        qi = pc.pin(q, 0, len(QK1) - 1)
        kind = QK1[qi]
        of_ = qi % 3
        x = pc.Ctx(c)
        root0 = x.root
        sig = f'{cid}.{opname}[{k}].after_{kind}'
        prequery(x.root, kind)
        exp, run = pc.OPS[opname](x, k, a, b, 0, 0)
        try:
            with FST.options(**pc.OPTS):
                run()
        except pc.EXPECTED_RAISES:
            cover('raise')
            check_fresh(x.root, root0, sig + '.raise', of_)
            return
        check_fresh(x.root, root0, sig, of_)
        cover('ok')
    return fn


ACC_SRC = ('def f(a):  # hdr\n    """Doc\n    string."""\n    if a:  # c1\n        x = 1  # short\n    else:\n        y = [2,\n             3]  # c2\n'
           '    return a  # r\nclass K:\n    v = 1\nz = f(1)  # end\ntry:\n    t = 1\nexcept E:  # he\n    u = 2  # cu\nmatch z:\n    case 1:  # c1\n        w = 3  # cw\n')
COMMENTS = ['a much longer comment than before', 'x', None]
DOCS = ['New doc', 'Two\nlines "quoted" \\ back', None]


def _mk_accessor(kind, ti, sec):
    def fn(q: int, k: int):
        assume(0 <= q < len(QKINDS))
        qi = pc.pin(q, 0, len(QKINDS) - 1)
        qk = QKINDS[qi]
        of_ = qi % 3
        with pc.untraced():
            root = FST(ACC_SRC, 'exec')
            pc.reset_globals()
            if kind == 'line_comment':
                targets = [n.f for n in ast.walk(root.a) if isinstance(n, ast.stmt)]
            elif kind == 'docstr':
                targets = [n.f for n in ast.walk(root.a) if isinstance(n, (ast.FunctionDef, ast.ClassDef, ast.Module))]
            else:
                targets = [root]
            prequery(root, qk)
        assume(0 <= k < len(targets))
        tgt = targets[pc.pin(k, 0, len(targets) - 1)]
        sig = f'accessor.{kind}.after_{qk}'
        try:
            if kind == 'line_comment':
                tgt.put_line_comment(COMMENTS[ti])
            elif kind == 'docstr':
                tgt.put_docstr(DOCS[ti])
        except pc.EXPECTED_RAISES:
            cover('raise')
        check_fresh(root, root, sig, of_)
        # a following structural edit must not act on stale answers either (delete / replace the statement just touched)
        if kind == 'line_comment' and sec and tgt.parent is not None and tgt.a is not None:
            par = tgt.parent
            try:
                with FST.options(**pc.OPTS):
                    if sec == 1:
                        tgt.remove()
                    else:
                        tgt.replace('w = 0')
            except pc.EXPECTED_RAISES:
                cover('second.raise')
                return
            with pc.untraced():
                pc.o_parse(root, sig + '.second')
            check_fresh(root, root, sig + '.second', of_)
            # and the enclosing block too
            if par.parent is not None and par.a is not None and isinstance(par.a, ast.stmt):
                try:
                    with FST.options(**pc.OPTS):
                        par.remove()
                except pc.EXPECTED_RAISES:
                    return
                with pc.untraced():
                    pc.o_parse(root, sig + '.third')
                check_fresh(root, root, sig + '.third', of_)
        cover('ok')
    return fn


FNQ = ['fst.fst.FST.loc', 'fst.fst.FST.bloc', 'fst.fst.FST.pars', 'fst.fst.FST.own_lines', 'fst.fst.FST.own_src', 'fst.fst_core._touch', 'fst.fst_core._touchall',
       'fst.fst_core._offset', 'fst.fst_core._set_ast', 'fst.fst_core._make_fst_tree', 'fst.fst_core._unmake_fst_tree', 'fst.fst_trivia._getput_line_comment',
       'fst.fst.FST.put_docstr']
CELLS = toffset.putsrc_offset_cells('T1', True, ('tuple', 'deco2'))
_Q = {('list4c', 'put_slice', 2), ('ifbody3', 'put_slice', 1), ('funcbody', 'insert', 1), ('dict3', 'view_delslice', 1), ('modbody', 'put_slice', 0), ('uni_targets', 'put_slice', 1), ('uni_samebytes', 'view_setitem', 1)}
for _c in pc.CARRIERS:
    for _op, _k in (('put_slice', 2), ('put_slice', 1), ('put_slice', 0), ('insert', 1), ('view_delslice', 1), ('view_setitem', 1)):
        CELLS.append(Cell(f'P1.{_c.id}.{_op}[{_k}]', _mk_edit(_c.id, _op, _k), 'P', pc.FN_EDIT + FNQ,
                          f'carrier {_c.id}; pre-queries of a symbolic kind ({len(QK1)} kinds) on all nodes; op {_op}[{_k}] with symbolic ints over Z; '
                          'then ~15 kinds of answers on EVERY node compared with FST(root.src) built from scratch (own_src variants asked in a symbolic order)',
                          tier='quick' if (_c.id, _op, _k) in _Q else 'thorough', budget=900, per_path=90, out='histories > 1 edit (P2 has 3 for comments); queries not listed',
                          reset=pc.reset_globals))
for _kind in ('line_comment', 'docstr', 'noedit'):
    for _ti in ((0, 1, 2) if _kind != 'noedit' else (0,)):
        for _sec in ((0, 1, 2) if _kind == 'line_comment' else (0,)):
            CELLS.append(Cell(f'P2.accessor[{_kind},text={_ti},then={_sec}]', _mk_accessor(_kind, _ti, _sec), 'P', FNQ,
                              f'carrier with docstring, block comments and nested blocks; pre-query kind symbolic ({len(QKINDS)} kinds); target statement/def ordinal symbolic; '
                              f'text choice {_ti} ({(COMMENTS if _kind == "line_comment" else DOCS)[_ti]!r}); '
                              + ('then ' + ['nothing', 'remove', 'replace'][_sec] + ' of the touched statement and removal of its enclosing block (3-step history)' if _kind == 'line_comment' else ''),
                              tier='quick' if (_kind != 'line_comment' and _ti == 0) or (_kind == 'line_comment' and _ti == 0) else 'thorough',
                              budget=600, per_path=90, reset=pc.reset_globals))


# ---------------------------------------------------------------------------------------------------------------- P3
# node-level operations which rewrite source in place without going through put/put_slice: par(), unpar(), and value assignment
PAR_SRCS = {
    'tight': 'r = x if(a)else c\ns = [(b)for(b)in(d)]\n',
    'tight2': 'y = not(x)in z\nw = a and(b)or c\nwith(a)as b: pass\nv = (a )if b else c\nu = [i for i in(j)if k]\n',
    'arith': 'v = (a) + (b * (c)) - ((d))\nw = -(e) ** (f)\n',
    'call': 'f((a), *(b), k=(c))  # cc\ng = h[(i)](j)\n',
    'tuples': 't = (a, (b, c))\nfor (i) in (x), y: pass\n',
    'uni': 'é = ("ñ") + (ü)  # ç\n',
    'solo': 'r = call((a))\ns = f((i for i in j))\nclass c((b)): pass\nt = g(k for k in (m))\n',
    'multi': 'm = (a +\n     (b) *\n     c)\nn = (  # c\n  d\n)\n',
}
PAR_OPS = [('par', {}), ('par', {'force': True}), ('unpar', {}), ('unpar', {'node': True}), ('par', {'whole': False})]


def _mk_parops(key):
    src = PAR_SRCS[key]

    def fn(q: int, k: int, o: int):
        assume(0 <= q < len(QK1) and 0 <= o < len(PAR_OPS))
        qi = pc.pin(q, 0, len(QK1) - 1)
        kind = QK1[qi]
        meth, kw = PAR_OPS[pc.pin(o, 0, len(PAR_OPS) - 1)]
        with pc.untraced():
            root = FST(src, 'exec')
            pc.reset_globals()
            nodes = [n for n in ast.walk(root.a) if isinstance(n, ast.expr)]
            dump0 = ast.dump(root.a)
        assume(0 <= k < len(nodes))
        node = nodes[pc.pin(k, 0, len(nodes) - 1)].f
        sig = f'parops.{key}.{meth}{kw or ""}.after_{kind}'
        prequery(root, kind)
        try:
            getattr(node, meth)(**kw)
        except pc.EXPECTED_RAISES:
            cover('raise')
            check_fresh(root, root, sig + '.raise', qi % 3)
            return
        with pc.untraced():
            try:
                same = ast.dump(ast.parse(pc.R(root.src))) == dump0
            except SyntaxError:
                same = False
        if not same:
            cover('unsafe')       # unpar() is documented not to validate parsability: removing needed parentheses is the caller's business
            return
        check_fresh(root, root, sig, qi % 3)
        cover('ok')
    return fn


for _k in PAR_SRCS:
    CELLS.append(Cell(f'P3.parops[{_k}]', _mk_parops(_k), 'P', FNQ + ['fst.fst.FST.par', 'fst.fst.FST.unpar', 'fst.fst_core._parenthesize_grouping', 'fst.fst_core._unparenthesize_grouping'],
                      f'carrier {PAR_SRCS[_k]!r}; pre-queries of a symbolic kind on all nodes; par() / par(force=True) / par(whole=False) / unpar() / unpar(node=True) on a symbolic expression ordinal; '
                      'when the source still parses to the same structure every answer on every node equals a fresh tree',
                      tier='quick', budget=600, per_path=90, out='unpar() results which change the structure (documented as the caller\'s responsibility)', reset=pc.reset_globals))
