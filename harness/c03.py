"""C03 — edits follow Python container semantics and change nothing else.

K1: index / slice / source-coordinate normalisation kernels against Python list semantics, integers UNBOUNDED.
K2: validate_put_arglike refuses exactly the splices whose result violates Python's call-argument ordering.
P1: put_slice / get_slice / put / remove / insert on carriers with symbolic (start, stop, idx) in Z (see c03 P cells).
"""
import ast

from engine.h import Cell, assume, check, cover, ref_slice_indices
from harness import pcommon as pc

PROPERTY = 'C03'
THOROUGH_SCALE = 1.0
THOROUGH_STRIDE = 3        # thorough tier = all quick cells + every 3rd thorough-only cell (sized to run end-to-end; '--cells' reaches the others)

from fst.fst_misc import clip_src_loc, fixup_one_index, fixup_slice_indices, validate_put_arglike  # noqa: E402
from fst.fst import _swizzle_getput_params  # noqa: E402
from fst.astutil import arglike_kind  # noqa: E402
from fst import NodeError  # noqa: E402


# ---------------------------------------------------------------------------------------------------------------- K1

def k1_one_index(len_: int, idx: int, start_at: int):
    """fixup_one_index == list indexing on the virtual list of length len_ - start_at (docstring), for all ints."""
    assume(0 <= start_at <= 1 and len_ >= start_at)
    L = len_ - start_at                      # length of the virtual field the user indexes
    try:
        got = fixup_one_index(len_, idx, start_at)
    except IndexError:
        check(not (-L <= idx < L), 'one_index.refused_valid', (len_, idx, start_at))
        cover('raise')
        return
    check(-L <= idx < L, 'one_index.accepted_invalid', (len_, idx, start_at, got))
    exp = (idx if idx >= 0 else idx + L) + start_at
    check(got == exp, 'one_index.wrong', (len_, idx, start_at, got, exp))
    cover('ok')


def k1_slice_indices(len_: int, start: int, stop: int, start_at: int, start_end: bool, stop_end: bool):
    """fixup_slice_indices == slice(start, stop).indices(L) shifted by start_at; only deviation: stop<start raises."""
    assume(0 <= start_at <= 1 and len_ >= start_at)
    L = len_ - start_at
    vs, ve = ref_slice_indices(L, L if start_end else start, L if stop_end else stop)
    try:
        s, e = fixup_slice_indices(len_, 'end' if start_end else start, 'end' if stop_end else stop, start_at)
    except IndexError:
        check(ve < vs, 'slice_indices.refused_valid', (len_, start, stop, start_at, start_end, stop_end))
        cover('raise')
        return
    check(ve >= vs, 'slice_indices.accepted_reversed', (len_, start, stop, start_at, s, e))
    check((s, e) == (vs + start_at, ve + start_at), 'slice_indices.wrong', (len_, start, stop, start_at, start_end, stop_end, (s, e), (vs, ve)))
    cover('ok')


class _R:
    pass


def _mk_clip(lines):
    o = _R()
    o.root = _R()
    o.root._lines = lines

    def k1_clip(ln: int, col: int, end_ln: int, end_col: int, ln_end: bool, col_end: bool, end_ln_end: bool, end_col_end: bool):
        """clip_src_loc: documented contract of get_src/put_src coordinates."""
        n = len(lines)
        try:
            g = clip_src_loc(o, 'end' if ln_end else ln, 'end' if col_end else col, 'end' if end_ln_end else end_ln,
                             'end' if end_col_end else end_col)
        except IndexError:
            # allowed only when the requested end precedes the requested start (after negative mapping)
            rl = n - 1 if ln_end else (ln + n if ln < 0 else ln)
            rel = n - 1 if end_ln_end else (end_ln + n if end_ln < 0 else end_ln)
            if rl > rel:
                cover('raise.line')
                return
            rl = max(0, min(n - 1, rl))
            rel = max(0, min(n - 1, rel))
            check(rl == rel, 'clip.refused_valid_lines', (ln, col, end_ln, end_col))
            ll = len(lines[rl])
            rc = ll if col_end else (max(0, col + ll) if col < 0 else min(col, ll))
            rec = ll if end_col_end else (max(0, end_col + ll) if end_col < 0 else min(end_col, ll))
            check(rc > rec, 'clip.refused_valid', (ln, col, end_ln, end_col))
            cover('raise.col')
            return
        gl, gc, gel, gec = g
        check(0 <= gl <= gel <= n - 1, 'clip.lines_out_of_range', (ln, end_ln, g))
        check(0 <= gc <= len(lines[gl]) and 0 <= gec <= len(lines[gel]), 'clip.cols_out_of_range', (col, end_col, g))
        check(gl < gel or gc <= gec, 'clip.reversed', g)
        # in-range values are kept, negative in-range values count from the end, 'end' means last line / line length
        if not ln_end and 0 <= ln < n:
            check(gl == ln, 'clip.ln_changed', (ln, g))
        if not ln_end and -n <= ln < 0:
            check(gl == ln + n, 'clip.ln_neg', (ln, g))
        if ln_end:
            check(gl == n - 1, 'clip.ln_end', g)
        if not end_ln_end and 0 <= end_ln < n:
            check(gel == end_ln, 'clip.end_ln_changed', (end_ln, g))
        if not end_ln_end and -n <= end_ln < 0:
            check(gel == end_ln + n, 'clip.end_ln_neg', (end_ln, g))
        if end_ln_end:
            check(gel == n - 1, 'clip.end_ln_end', g)
        ll = len(lines[gl])
        lel = len(lines[gel])
        if col_end:
            check(gc == ll, 'clip.col_end', g)
        elif 0 <= col <= ll:
            check(gc == col, 'clip.col_changed', (col, g))
        elif col > ll:
            check(gc == ll, 'clip.col_clip_hi', (col, g))
        elif col >= -ll:
            check(gc == col + ll, 'clip.col_neg', (col, g))
        else:
            check(gc == 0, 'clip.col_clip_lo', (col, g))
        if end_col_end:
            check(gec == lel, 'clip.end_col_end', g)
        elif 0 <= end_col <= lel:
            check(gec == end_col, 'clip.end_col_changed', (end_col, g))
        elif end_col > lel:
            check(gec == lel, 'clip.end_col_clip_hi', (end_col, g))
        elif end_col >= -lel:
            check(gec == end_col + lel, 'clip.end_col_neg', (end_col, g))
        else:
            check(gec == 0, 'clip.end_col_clip_lo', (end_col, g))
        cover('ok')
    return k1_clip


def k1_swizzle(start: int, stop: int, s_kind: int, t_kind: int, f_kind: int):
    """_swizzle_getput_params: get/put('field'), get/put(start, 'field'), get/put(start, stop, 'field')."""
    assume(0 <= s_kind <= 3 and 0 <= t_kind <= 3 and 0 <= f_kind <= 1)
    sv = [start, 'end', None, 'elts'][s_kind]
    tv = [stop, 'end', None, 'keys'][t_kind]
    fv = [None, 'body'][f_kind]
    g = _swizzle_getput_params(sv, tv, fv, 0, 'end')
    if s_kind == 3:
        check(g == (0, 'end', 'elts'), 'swizzle.field_first', g)
    elif t_kind == 3:
        check(g == (sv, 'end', 'keys'), 'swizzle.field_second', g)
    else:
        check(g == (sv, tv, fv), 'swizzle.plain', g)


# ---------------------------------------------------------------------------------------------------------------- K2

def _mk_arglike(k):
    if k == 0:
        return ast.Name('a', ast.Load())
    if k == 1:
        return ast.Starred(ast.Name('s', ast.Load()), ast.Load())
    if k == 2:
        return ast.keyword('k', ast.Name('v', ast.Load()))
    return ast.keyword(None, ast.Name('kw', ast.Load()))


def _valid_order(kinds):
    """Python call syntax: a positional may not follow keyword or **; a *starred may not follow **."""
    for j in range(len(kinds)):
        for i in range(j):
            if kinds[j] == 0 and kinds[i] >= 2:
                return False
            if kinds[j] == 1 and kinds[i] == 3:
                return False
    return True


def _mk_arglike_cell(nb, npt, single):
    def k2(b0: int, b1: int, b2: int, b3: int, p0: int, p1: int, p2: int, start: int, stop: int):
        body = [b0, b1, b2, b3][:nb]
        put = [p0, p1, p2][:npt]
        for k in body + put:
            assume(0 <= k <= 3)
        for k in [b0, b1, b2, b3][nb:] + [p0, p1, p2][npt:]:
            assume(k == 0)
        assume(0 <= start <= stop <= nb)
        assume(_valid_order(body) and _valid_order(put))
        body_a = [_mk_arglike(k) for k in body]
        put_a = [_mk_arglike(k) for k in put]
        for a_, k in zip(body_a + put_a, body + put):
            check(arglike_kind(a_) == k, 'arglike_kind.wrong', k)
        exp_ok = _valid_order(body[:start] + put + body[stop:])
        try:
            r = validate_put_arglike(body_a, start, stop, put_a[0] if single else put_a)
        except NodeError:
            check(not exp_ok, 'arglike.refused_valid', (body, put, start, stop))
            cover('raise')
            return
        check(exp_ok, 'arglike.accepted_invalid', (body, put, start, stop))
        if single:
            check(r == put[0], 'arglike.ret', r)
        else:
            check(r == (min(put), max(put)), 'arglike.ret', r)
        cover('ok')
    return k2


FN_IDX = ['fst.fst_misc.fixup_one_index', 'fst.fst_misc.fixup_slice_indices']
CELLS = [
    Cell('K1.fixup_one_index', k1_one_index, 'K', ['fst.fst_misc.fixup_one_index'],
         'len_, idx: all integers (len_ >= start_at); start_at in {0,1}', budget=60),
    Cell('K1.fixup_slice_indices', k1_slice_indices, 'K', ['fst.fst_misc.fixup_slice_indices'],
         "len_, start, stop: all integers; start_at in {0,1}; 'end' for either bound", budget=120),
    Cell('K1.swizzle', k1_swizzle, 'K', ['fst.fst._swizzle_getput_params'], 'start/stop any int | "end" | None | field name', budget=60),
]
for _i, _lines in enumerate([['abc', '', 'de'], ['x'], ['', 'abcd']]):
    CELLS.append(Cell(f'K1.clip_src_loc[{_i}]', _mk_clip(_lines), 'K', ['fst.fst_misc.clip_src_loc'],
                      f"ln, col, end_ln, end_col: all integers or 'end'; line lengths fixed to {[len(x) for x in _lines]}",
                      budget=240, tier='quick' if _i == 0 else 'thorough',
                      out='other line-length shapes (the code only compares against len())'))
for _nb in range(0, 5):
    for _np in range(1, 4):
        for _single in ((True, False) if _np == 1 else (False,)):
            if _nb + _np > 5:
                continue     # measured: do not exhaust within 900 CPU s; outside the claim
            thorough = _nb + _np > 3
            CELLS.append(Cell(f'K2.validate_put_arglike[body={_nb},put={_np},{"one" if _single else "list"}]',
                              _mk_arglike_cell(_nb, _np, _single), 'K',
                              ['fst.fst_misc.validate_put_arglike', 'fst.astutil.arglike_kind'],
                              f'all kind sequences in {{0,1,2,3}}^{_nb} (valid order) x put {{0..3}}^{_np} (valid order) x all 0<=start<=stop<={_nb}',
                              budget=900 if thorough else 400, tier='thorough' if thorough else 'quick',
                              assumptions=['body and put are each validly ordered on their own (they come from a parse)']))

CELLS += pc.c03_cells()
