"""C07 — copying never disturbs the tree; extraction is faithful and loses nothing.

P1: get_slice / copy / cut on 29 carrier containers with (start, stop) symbolic over Z:
    (i)   after a copy the source tree's text and full attribute dump are identical to before;
    (ii)  the returned tree's own source, re-rendered by CPython inside the same kind of container, has exactly the elements
          old[s:e] (O-list), and the returned tree itself equals CPython's parse of its source in the mode pfst reports;
    (iii) cut returns what copy returns and leaves what put_slice(None, s, e) leaves (three clones, same symbolic arguments);
    (iv)  NAME/NUMBER/STRING/COMMENT token multisets: original == remainder + piece.
P2: copy() of single nodes (symbolic walk ordinal): source tree untouched, copy parses alone to the same structure.
T1: re-lettered copies: for EVERY code point >= U+0080 at marked positions the copied tree's text/positions are the re-lettering
    of the marker copy (the re-basing arithmetic of _make_fst_and_dedent in bytes vs characters).
"""
import ast

from engine.h import Cell, assume, check, cover, fail
from harness import pcommon as pc
from harness import tletter
from harness.c04 import _toks

from fst import FST

PROPERTY = 'C07'
THOROUGH_SCALE = 2.0

_OPEN = {'(': ')', '[': ']', '{': '}'}


def piece_inner(c, src):
    s = src.strip()
    while s.endswith('\\'):
        s = s[:-1].rstrip()
    if s and s[0] in _OPEN and s.endswith(_OPEN[s[0]]) and c.sep.strip() in (',', '|', ''):
        # one pair of own delimiters (List/Set/Dict/Tuple/MatchSequence pieces come delimited)
        depth = 0
        closes_at_end = True
        for i, ch in enumerate(s):
            if ch in _OPEN:
                depth += 1
            elif ch in _OPEN.values():
                depth -= 1
                if depth == 0 and i != len(s) - 1:
                    closes_at_end = False
                    break
        if closes_at_end and '#' not in s.split('\n')[0][:1]:
            s = s[1:-1].strip()
    sep = c.sep.strip()
    # drop trailing separator / continuation / comment-only tail lines
    lines = s.split('\n')
    while lines and (not lines[-1].strip() or lines[-1].strip().startswith('#')) and len(lines) > 1 and c.tindent == '' and c.sep != '\n':
        lines.pop()
    s = '\n'.join(lines).rstrip()
    while s.endswith('\\'):
        s = s[:-1].rstrip()
    if sep and s.endswith(sep) and not s.endswith('==' if sep == '=' else '\x00'):
        s = s[:-len(sep)].rstrip()
    return s


def indent_code(text, ind):
    """indent every line after the first by ind, except lines which continue a multi-line string token (their text is string content)"""
    import io
    import tokenize
    lines = text.split('\n')
    inside = set()
    try:
        for t in tokenize.generate_tokens(io.StringIO(text + '\n').readline):
            if t.type == tokenize.STRING and t.end[0] > t.start[0]:
                inside.update(range(t.start[0] + 1, t.end[0] + 1))
    except (tokenize.TokenError, IndentationError, SyntaxError):
        pass
    return '\n'.join(l if i == 0 or (i + 1) in inside else ind + l for i, l in enumerate(lines))


def _undoc(dumps):
    """docstring-like statements (str expression statements) compare up to the documented re-indentation of their continuation lines"""
    import re
    def fix(m):
        v = ast.literal_eval(m.group(1))
        return 'Expr(value=Constant(value=' + repr('\n'.join(l.lstrip() for l in v.split('\n'))) + '))'
    return None if dumps is None else [re.sub(r"Expr\(value=Constant\(value=('(?:[^'\\]|\\.)*'|\"(?:[^\"\\]|\\.)*\")\)\)", fix, d) for d in dumps]


def _norm_str_tok(k, v):
    if k == 'STRING' and '\n' in v:
        q = min(i for i in (v.find('"'), v.find("'")) if i >= 0)
        if 'b' not in v[:q].lower():
            return k, '\n'.join(l.lstrip() for l in v.split('\n'))
    return k, v


def piece_elems(c, piece_src, n_expected):
    if n_expected == 0:
        return []
    inner = piece_inner(c, piece_src)
    # comments inside a delimited expression sequence would swallow the template's closing delimiter: put it on its own line
    try:
        ind = (c.tsep or '').lstrip('\n') if (c.tsep or '').startswith('\n') else c.tindent
        t = ast.parse(c.tmpl.format(indent_code(inner, ind) + ('\n' if '#' in inner.split('\n')[-1] else '')))
        return c.get_elems(c.locate_ast(t))
    except (SyntaxError, AttributeError, IndexError):
        return None


def own_parse_check(piece, psrc, sig):
    """an expression piece must equal CPython's parse of its own source; the source is put inside one pair of parentheses so that
    leading newlines / dangling continuations (which pfst's expression modes accept) are fine; columns on line 1 shift by one"""
    pc.realize_tree(piece.a)
    try:
        t = ast.parse('(' + psrc + '\n)', mode='eval').body
    except SyntaxError as ex:
        fail(sig + '.does_not_parse_on_its_own', (psrc, str(ex)))
    for n in ast.walk(t):
        if hasattr(n, 'end_col_offset'):
            if n.lineno == 1:
                n.col_offset -= 1
            if n.end_lineno == 1:
                n.end_col_offset -= 1
    a = piece.a
    if ast.dump(t) != ast.dump(a):
        fail(sig + '.structure_differs_from_own_parse', (psrc, ast.dump(t)[:300], ast.dump(a)[:300]))
    if isinstance(a, ast.Tuple) and not (psrc.lstrip().startswith('(')):
        pairs = list(zip(ast.iter_child_nodes(t), ast.iter_child_nodes(a)))      # unparenthesised tuple: CPython's positions include our wrapper parentheses
    else:
        pairs = [(t, a)]
    for x_, y_ in pairs:
        d1, d2 = ast.dump(x_, include_attributes=True), ast.dump(y_, include_attributes=True)
        if d1 != d2:
            fail(sig + '.positions_differ_from_own_parse', (psrc, pc._first_diff(d1, d2)))


OPTV = [{}, {'trivia': False}, {'trivia': (False, False)}, {'trivia': 'all'}, {'trivia': ('all', 'all')}, {'trivia': ('block', 'line')}, {'trivia': ('none', 'block')},
        {'pars': False}, {'pars': True}, {'trivia': ('all+1', 'all-1')}]


def _mk_slice(cid):
    c = pc.CARRIER[cid]

    def fn(a: int, b: int, o: int):
        assume(0 <= o < len(OPTV))
        o = pc.pin(o, 0, len(OPTV) - 1)
        OPTS = dict(pc.OPTS, **OPTV[o])
        x = pc.Ctx(c)
        sig = f'{cid}.get_slice' + (f'[{OPTV[o]}]' if o else '')
        s, e = pc.ref_slice(x.n, a, b)
        with pc.untraced():
            old_dumps = c.get_elems(c.locate_ast(ast.parse(c.src)))
        # ---- copy
        try:
            with FST.options(**OPTS):
                piece = x.cont.get_slice(a, b, c.field)
        except pc.EXPECTED_RAISES as ex:
            x.check_unchanged(sig + '.raise')
            check(e < s or isinstance(ex, (NotImplementedError, ValueError)) or (c.refuse_re and __import__('re').search(c.refuse_re, str(ex))), sig + '.copy_refused', (type(ex).__name__, str(ex)[:150]))
            cover('raise')
            return
        check(e >= s, sig + '.reversed_bounds_accepted')
        x.check_unchanged(sig + '.copy')       # (i) the tree read from is byte-identical, positions included
        with pc.untraced():
            psrc = pc.R(piece.src)
            want = old_dumps[s:e]
            got = piece_elems(c, psrc, len(want))
            check(got is not None, sig + '.piece_does_not_parse_in_its_container', (psrc,))
            check(_undoc(got) == _undoc(want), sig + '.piece_is_not_old[s:e]', (psrc, got, want))
            check(piece.root is piece and piece.parent is None, sig + '.piece_not_self_contained')
            pc.links_ok(piece, sig + '.piece')
            if isinstance(piece.a, ast.Module):
                pc.o_parse(piece, sig + '.piece', 'exec')
            elif isinstance(piece.a, ast.expr):
                own_parse_check(piece, psrc, sig + '.piece')
        # ---- cut == copy + delete
        y = pc.Ctx(c)
        z = pc.Ctx(c)
        cut_exc = del_exc = None
        try:
            with FST.options(**OPTS):
                cutp = y.cont.get_slice(a, b, c.field, cut=True)
        except pc.EXPECTED_RAISES as ex:
            cut_exc = ex
        try:
            with FST.options(**OPTS):
                z.cont.put_slice(None, a, b, c.field)
        except pc.EXPECTED_RAISES as ex:
            del_exc = ex
        check((cut_exc is None) == (del_exc is None), sig + '.cut_and_delete_disagree_on_validity', (repr(cut_exc)[:100], repr(del_exc)[:100]))
        if cut_exc is not None:
            y.check_unchanged(sig + '.cut_raise')
            cover('cut.raise')
            return
        with pc.untraced():
            csrc = pc.R(cutp.src)
            rem, dele = pc.R(y.root.src), pc.R(z.root.src)
            check(_undoc(piece_elems(c, csrc, len(want))) == _undoc(want), sig + '.cut_piece_is_not_old[s:e]', (csrc, want))
            check(csrc == psrc, sig + '.cut_returns_something_else_than_copy', (csrc, psrc))
            check(rem == dele, sig + '.cut_remainder_differs_from_delete', (rem, dele))
            pc.o_parse(y.root, sig + '.cut_remainder')
            # (iv) token conservation
            sepw = {c.sep.strip(), 'elif', 'else', 'if'} if c.sep.strip().isalpha() else {'elif', 'else'}
            if c.id in ('compare3', 'boolop3'):
                sepw |= {'is', 'not', 'in', 'and', 'or'}      # operators between operands are separators here
            if c.field == 'orelse':
                sepw |= {'if'}                                # `elif y:` leaves as `if y:` (the keywords the move itself requires)
            else_hdr = []
            if c.field == 'orelse' and s == 0 and e == x.n and e > s:
                # the whole else block goes: its `else:` header line goes with the keyword, and with it a comment written on that line
                else_hdr = [(k_, v_) for l_ in c.src.split('\n') if l_.lstrip().startswith('else') for k_, v_, _ in _toks(l_ + '\n') if k_ == 'COMMENT']

            def ms(src_):
                return sorted(_norm_str_tok(k, v) for k, v, _ in _toks(src_ if src_.endswith('\n') else src_ + '\n') if v not in sepw)
            try:
                orig, r_, p_ = ms(c.src), ms(rem), ms(csrc if not csrc.startswith((' ', '\t')) else csrc.lstrip())
            except Exception as ex:   # noqa: BLE001
                orig = None
            if orig is not None:
                check(sorted(r_ + p_) == orig or sorted(r_ + p_ + else_hdr) == orig, sig + '.tokens_not_conserved_between_remainder_and_piece', (rem, csrc, [t for t in orig if t not in r_ + p_][:6], [t for t in r_ + p_ if t not in orig][:6]))
        cover('ok')
    return fn


COPY_SRCS = {
    'mix': 'x = f(a, (b), [c,  # k\n  d])\nif x:  # h\n    y = -x  # t\nelif z:\n    pass\n@dec\ndef g(p, q=1):\n    """doc\n    more"""\n    return p\n',
    'expr': 'r = a if b else (c + d) * e[1:2]\ns = {k: v for k, v in m.items() if k}\nt = lambda u, *w: (u, w)\n',
}


def _mk_copy(key):
    src = COPY_SRCS[key]

    def fn(k: int):
        with pc.untraced():
            root = FST(src, 'exec')
            pc.reset_globals()
            nodes = [n for n in ast.walk(root.a) if n is not root.a and not isinstance(n, (ast.expr_context, ast.operator, ast.cmpop, ast.boolop, ast.unaryop))]
            dump0 = ast.dump(root.a, include_attributes=True)
        assume(0 <= k < len(nodes))
        node = nodes[pc.pin(k, 0, len(nodes) - 1)]
        sig = f'copy.{key}.{type(node).__name__}'
        try:
            with FST.options(**pc.OPTS):
                cp = node.f.copy()
        except pc.EXPECTED_RAISES as ex:
            cover('raise')
            cp = None
        with pc.untraced():
            check(pc.R(root.src) == src, 'copy.source_tree_text_changed', (type(node).__name__,))
            pc.realize_tree(root.a)
            d = ast.dump(root.a, include_attributes=True)
            check(d == dump0, 'copy.source_tree_positions_or_structure_changed', (type(node).__name__, pc._first_diff(dump0, d)))
            check(not pc.fst_core._MODIFYING, 'copy.modification_lock_leaked')
            pc.links_ok(root, sig)
            if cp is None:
                return
            csrc = pc.R(cp.src)
            check(cp.root is cp, 'copy.not_a_root')
            pc.links_ok(cp, sig + '.copy')
            # structure equal to the original sub-tree (docstring re-indentation aside: compare without attributes)
            import re as _re
            _n = lambda d_: _re.sub(r'ctx=(Store|Del)\(\)', 'ctx=Load()', d_)   # noqa: E731  a copied target is a Load expression on its own
            check(_n(ast.dump(cp.a)) == _n(ast.dump(node)) or isinstance(node, (ast.FunctionDef, ast.ClassDef)) or (isinstance(node, ast.If) and csrc.startswith('if'))
                  or (isinstance(node, ast.Expr) and isinstance(node.value, ast.Constant) and isinstance(node.value.value, str)),   # documented docstring re-indentation
                  'copy.structure_differs_from_original_subtree', (type(node).__name__, csrc))
            # parses on its own
            if isinstance(cp.a, ast.Module) or isinstance(cp.a, ast.stmt):
                t = ast.parse(csrc)
                pc.realize_tree(cp.a)
                tgt = t if isinstance(cp.a, ast.Module) else t.body[0]
                d1, d2 = ast.dump(tgt, include_attributes=True), ast.dump(cp.a, include_attributes=True)
                if d1 != d2:
                    check(ast.dump(tgt) == ast.dump(cp.a), 'copy.stmt_copy_differs_from_own_parse', (type(node).__name__, csrc))
                    fail('copy.stmt_copy_positions_differ_from_own_parse', (type(node).__name__, csrc, pc._first_diff(d1, d2)))
            elif isinstance(cp.a, ast.expr) and not isinstance(cp.a, (ast.Slice, ast.Starred)):
                try:
                    t = ast.parse(csrc, mode='eval').body
                except SyntaxError as ex:
                    fail('copy.expr_copy_does_not_parse_alone', (type(node).__name__, csrc, str(ex)))
                pc.realize_tree(cp.a)
                d1, d2 = ast.dump(t, include_attributes=True), ast.dump(cp.a, include_attributes=True)
                if d1 != d2:
                    check(ast.dump(t) == ast.dump(cp.a), 'copy.expr_copy_differs_from_own_parse', (type(node).__name__, csrc))
                    fail('copy.expr_copy_positions_differ_from_own_parse', (type(node).__name__, csrc, pc._first_diff(d1, d2)))
        cover('ok')
    return fn


def _s_copy_elt(f):
    return f.body[0].value.elts[1].copy()


def _s_copy_slice(f):
    return f.body[0].value.get_slice(1, 3)


def _s_copy_stmt(f):
    return f.body[0].body[1].copy()


LETTER = [
    ('copy_elt', 'x = ["¡", (a + "¢"),  # £\n     b]\n', _s_copy_elt, 'quick'),
    ('copy_slice', 'x = ["¡", a,  # ¢\n     "£", b]\n', _s_copy_slice, 'quick'),
    ('copy_stmt', 'if c:  # ¡\n    x = "¢"\n    y = ("£",  # ¤\n         z)\n', _s_copy_stmt, 'thorough'),
]

FNC = ['fst.fst.FST.get_slice', 'fst.fst.FST.copy', 'fst.fst.FST.cut', 'fst.fst_get_slice._get_slice', 'fst.fst_core._make_fst_and_dedent', 'fst.astutil.copy_ast',
       'fst.fst_misc._fix_copy', 'fst.fst_core._offset']
CELLS = []
_Q = {'list4c', 'ifbody3', 'dict3', 'tuple3', 'decos', 'callargs', 'handlers', 'uni_list', 'global5'}
for _c in pc.CARRIERS:
    CELLS.append(Cell(f'P1.{_c.id}.get_slice', _mk_slice(_c.id), 'P', FNC,
                      f'carrier {_c.id}; get_slice(a, b) / get_slice(cut=True) / put_slice(None) with (a, b) symbolic over Z and the option set symbolic over {OPTV} (each with norm=True); piece re-rendered and parsed by CPython in the same container kind',
                      tier='quick', budget=900, per_path=60, out='other programs; option values outside the listed sets; norm=False (pfst documents that it may leave invalid empty containers)',
                      reset=pc.reset_globals))
for _k in COPY_SRCS:
    CELLS.append(Cell(f'P2.copy[{_k}]', _mk_copy(_k), 'P', FNC, f'carrier {_k}: copy() of every node (symbolic walk ordinal, finite choice)', tier='quick', budget=900, per_path=60,
                      reset=pc.reset_globals))
for _n, _src, _scr, _tier in LETTER:
    CELLS.append(tletter.letter_cell('T1', _n, _src, _scr, tier=_tier))
