"""C04 — formatting and comments outside the edited element are preserved byte for byte.

K1: trivia selection (leading_trivia / trailing_trivia): whatever the surrounding text (symbolic characters over the classes
    the scanners distinguish), the region selected as "belonging to the element" never contains a code line, lies within
    the bound, honours 'none' / 'block' / 'all' and the blank-line budget — i.e. which lines an edit is ALLOWED to touch.
K2: get_trivia_params maps the option mini-language to parameters as documented, the number in '+N' / '-N' for all N.
P1: edits with symbolic indices on comment-rich carriers: COMMENT/NAME/NUMBER/STRING token multisets after the edit =
    before - tokens of removed elements + tokens of new elements (trivia=False: no comment may disappear at all; default
    trivia: only comments adjacent to a removed element), lines outside the container's extent byte-identical and in order.
"""
import ast
import io
import tokenize

from engine.h import Cell, assume, check, cover, fail
from harness import pcommon as pc

from fst import FST
from fst.fst_trivia import get_trivia_params, leading_trivia, trailing_trivia

PROPERTY = 'C04'
THOROUGH_SCALE = 2.0
THOROUGH_STRIDE = 3        # thorough tier = all quick cells + every 3th thorough-only cell (sized to run end-to-end; '--cells' reaches the others)

ALPHA = ' \t#\\x'     # blank, tab, comment start, continuation, code


def _line_from(cs):
    """symbolic characters restricted to the classes the scanners distinguish (NOT pinned: the code under test and the reference split the cases)"""
    s = ''
    for c in cs:
        assume(c == 32 or c == 9 or c == 35 or c == 92 or c == 120)
        s = s + chr(c)
    return s


def _kind(l):
    """'blank' | 'cont' (only a backslash) | 'comment' | 'code' — written from the regex comments in common.py"""
    i = 0
    while i < len(l) and l[i] in ' \t':
        i += 1
    if i == len(l):
        return 'blank'
    if l[i] == '#':
        return 'comment'
    if l[i] == '\\' and i == len(l) - 1:
        return 'cont'
    return 'code'


def _mk_leading(nfree, width, mode, ind, spv, bc):
    """nfree free lines above the element line, each `width` symbolic characters over ALPHA."""
    def k1(c0: int, c1: int, c2: int, c3: int, c4: int, c5: int):
        cs = [c0, c1, c2, c3, c4, c5]
        for c in cs[nfree * width:]:
            assume(c == 0)
        free = [_line_from(cs[i * width:(i + 1) * width]) for i in range(nfree)]
        lines = ['b;'] + free + [' ' * ind + 'x']           # line 0 holds the bound (other code ends at (0, bcol*2))
        ln = nfree + 1
        (tl, tc), spos, indent = leading_trivia(lines, 0, bc * 2, ln, ind, mode, spv)
        top = 0 + (1 if bc else 0)
        if top > 0:
            pass
        else:
            # bound at (0, 0): line 0 itself is available; it is code ('b;') so it can never be part of the trivia
            pass
        kinds = [_kind(l) for l in lines]
        check(indent == ' ' * ind, 'leading.indent_wrong', (lines, indent))
        # [0] text position: the element itself or column 0 of a line above it
        if (tl, tc) != (ln, ind):
            check(tc == 0 and top <= tl < ln, 'leading.text_pos_out_of_bounds', (lines, (tl, tc)))
            check(mode != 'none', 'leading.none_took_comments', (lines, (tl, tc)))
            for i in range(tl, ln):
                check(kinds[i] != 'code', 'leading.code_line_claimed_as_trivia', (lines, (tl, tc), i))
            check(kinds[tl] == 'comment', 'leading.region_does_not_start_with_comment', (lines, (tl, tc)))
            if mode == 'block':
                for i in range(tl, ln):
                    check(kinds[i] == 'comment', 'leading.block_not_contiguous_comments', (lines, (tl, tc), i))
        first = tl if (tl, tc) != (ln, ind) else ln
        if mode == 'block':
            # maximal: the line just above the block (inside the bound) is not a comment line
            k = ln
            while k - 1 >= top and kinds[k - 1] == 'comment':
                k -= 1
            check(first == k, 'leading.block_not_maximal', (lines, (tl, tc), k))
        if mode == 'all':
            k = ln
            j = ln
            while j - 1 >= top and kinds[j - 1] != 'code':
                j -= 1
                if kinds[j] == 'comment':
                    k = j
            check(first == k, 'leading.all_wrong_start', (lines, (tl, tc), k))
        # [1] space position: only blank / continuation lines between it and the comments (or the element), within budget
        if spos is not None:
            sl, sc = spos
            check(sc == 0 and top <= sl <= first, 'leading.space_pos_out_of_bounds', (lines, spos, first))
            for i in range(sl, first):
                check(kinds[i] in ('blank', 'cont'), 'leading.nonblank_line_claimed_as_space', (lines, spos, i))
            if spv is not True:
                check(first - sl <= (spv or 0), 'leading.more_space_than_requested', (lines, spos, spv))
        cover('ok')
    return k1


def _mk_trailing(nfree, width, mode, tail, spv):
    def k1(c0: int, c1: int, c2: int, c3: int, c4: int, c5: int):
        cs = [c0, c1, c2, c3, c4, c5]
        for c in cs[nfree * width:]:
            assume(c == 0)
        free = [_line_from(cs[i * width:(i + 1) * width]) for i in range(nfree)]
        lines = ['x' + tail] + free + ['y']            # element 'x' ends at (0, 1); the bound (next code) starts at (nfree+1, 0)
        bl = nfree + 1
        (tl, tc), spos, ends_line = trailing_trivia(lines, bl, 0, 0, 1, mode, spv)
        kinds = [_kind(l) for l in lines]
        if tail == '  # c' and mode == 'none':
            # a comment that is not taken follows on the element line: the element does not end its line (docstring)
            check(ends_line is False and (tl, tc) == (0, 1), 'trailing.untaken_line_comment', (lines, (tl, tc), ends_line))
            cover('not_eol')
            return
        check(ends_line is True, 'trailing.ends_line_flag', (lines,))
        check((tl, tc) == (0, 1) or (tc == 0 and 1 <= tl <= bl), 'trailing.text_pos_out_of_bounds', (lines, (tl, tc)))
        last = 0 if (tl, tc) == (0, 1) else tl      # lines 1 .. last-1 were claimed as comments belonging to the element
        if mode == 'none':
            check((tl, tc) == (0, 1), 'trailing.none_took_comments', (lines, (tl, tc)))
        if tail != '  # c' or mode == 'none':
            pass
        for i in range(1, last):
            check(kinds[i] != 'code', 'trailing.code_line_claimed_as_trivia', (lines, (tl, tc), i))
            if mode == 'block':
                check(kinds[i] == 'comment', 'trailing.block_not_contiguous_comments', (lines, (tl, tc), i))
        if mode == 'line':
            check(last <= 1, 'trailing.line_took_more_than_the_line_comment', (lines, (tl, tc)))
        if last > 1:
            check(kinds[last - 1] == 'comment', 'trailing.region_does_not_end_with_comment', (lines, (tl, tc)))
        if spos is not None:
            sl, sc = spos
            check(sc == 0 and max(last, 1) <= sl <= bl, 'trailing.space_pos_out_of_bounds', (lines, spos))
            for i in range(max(last, 1), sl):
                check(kinds[i] in ('blank', 'cont'), 'trailing.nonblank_line_claimed_as_space', (lines, spos, i))
            if spv is not True:
                check(sl - max(last, 1) <= (spv or 0), 'trailing.more_space_than_requested', (lines, spos, spv))
        cover('ok')
    return k1


def k2_trivia_params(lead: int, trail: int, n: int, m: int, neg: bool, shape: int):
    """option mini-language -> parameters (docstring of options() / get_trivia_params)"""
    assume(0 <= lead <= 9 and 0 <= trail <= 11 and 0 <= n <= 99 and 0 <= m <= 99 and 0 <= shape <= 3)
    li = pc.pin(lead, 0, 9)
    ti = pc.pin(trail, 0, 11)
    sh = pc.pin(shape, 0, 3)
    ns, ms = str(n), str(m)
    LV = [True, False, 'all', 'block', 'none', 'all+', 'block+' + ns, 'none-' + ns, '+' + ns, '-']
    LE = [('block', False, False), ('none', False, False), ('all', False, False), ('block', False, False), ('none', False, False),
          ('all', True, False), ('block', n, False), ('none', (n if neg else 0), True), ('block', n, False), ('block', (True if neg else 0), True)]
    TV = [True, False, 'all', 'block', 'none', 'line', 'all+', 'line+' + ms, 'block-' + ms, '+' + ms, '-', 'line-']
    TE = [('line', False, False), ('none', False, False), ('all', False, False), ('block', False, False), ('none', False, False), ('line', False, False),
          ('all', True, False), ('line', m, False), ('block', (m if neg else 0), True), ('line', m, False), ('line', (True if neg else 0), True),
          ('line', (True if neg else 0), True)]
    lv, le, tv, te = LV[li], LE[li], TV[ti], TE[ti]
    if sh == 0:       # scalar: leading only, trailing default True
        got = get_trivia_params(lv, neg)
        exp = le + TE[0]
    elif sh == 1:     # (trailing,)
        got = get_trivia_params((tv,), neg)
        exp = LE[0] + te
    elif sh == 2:
        got = get_trivia_params((lv, tv), neg)
        exp = le + te
    else:
        got = get_trivia_params((), neg)
        exp = LE[1] + TE[1]
    check(tuple(got) == exp, 'trivia_params.wrong', (lv, tv, sh, tuple(got), exp))
    cover('ok')


# ---------------------------------------------------------------------------------------------------------------- P1
def _toks(src):
    out = []
    for t in tokenize.generate_tokens(io.StringIO(src).readline):
        if t.type in (tokenize.NAME, tokenize.NUMBER, tokenize.STRING, tokenize.COMMENT):
            out.append((tokenize.tok_name[t.type], t.string, t.start[0]))
    return out


def _elem_extents(c, cont, n):
    """(first line, last line) of each existing element, from CPython positions"""
    fld = c.field
    if fld == '_all' and isinstance(cont, ast.Dict):
        items = [[k_ or v_, v_] for k_, v_ in zip(cont.keys, cont.values)]
    elif fld == '_all' and isinstance(cont, ast.Compare):
        items = [[cont.left]] + [[x_] for x_ in cont.comparators]
    elif fld in ('_args', '_bases'):
        items = sorted([[a_] for a_ in (getattr(cont, 'args', None) or getattr(cont, 'bases', []))] + [[k_] for k_ in cont.keywords],
                       key=lambda it: (it[0].lineno, it[0].col_offset))
    elif fld == '_body':
        items = [[s_] for s_ in (cont.body[1:] if pc._is_doc(cont.body) else cont.body)]
    else:
        items = [[e_] if isinstance(e_, ast.AST) else None for e_ in getattr(cont, fld)]
    out = []
    for it in items:
        if it is None or not hasattr(it[0], 'lineno'):
            out.append((cont.lineno, cont.end_lineno))
        else:
            out.append((min(getattr(e_, 'lineno') for e_ in it), max(getattr(e_, 'end_lineno') for e_ in it)))
    while len(out) < n:
        out.append((cont.lineno, cont.end_lineno))
    return out


def _comment_between(src, tok, elem_nodes, removed_idx):
    """is the comment (on the first/last line of the removed span) located between two removed elements?"""
    line = tok[2]
    return any(elem_nodes[i][1] <= line <= elem_nodes[j][0] or elem_nodes[i][0] <= line <= elem_nodes[j][1] for i in removed_idx for j in removed_idx if i < j) \
        or len(removed_idx) >= 1 and elem_nodes[removed_idx[0]][0] == line == elem_nodes[removed_idx[-1]][1] and False


def _mk_tok(cid, opname, k, trivia_false):
    trivia_all = trivia_false == 'all'
    trivia_false = trivia_false is True
    c = pc.CARRIER[cid]

    def fn(a: int, b: int):
        x = pc.Ctx(c)
        exp, run = pc.OPS[opname](x, k, a, b, 0, 0)
        if opname == 'put_slice':
            span = pc.ref_slice(x.n, a, b)
            span = None if span[1] < span[0] else span
        elif opname == 'insert':
            i_ = pc.ref_insert_pos(x.n, a)
            span = (i_, i_)
        else:
            i_ = pc.ref_index(x.n, a)
            span = None if i_ is None else (i_, i_ + 1)
        sig = f'{cid}.{opname}[{k}]' + ('.trivia_false' if trivia_false else '.trivia_all' if trivia_all else '')
        opts = dict(pc.OPTS)
        if trivia_false:
            opts['trivia'] = (False, False)
        if trivia_all:
            opts['trivia'] = ('all', 'all')
        try:
            with FST.options(**opts):
                run()
        except pc.EXPECTED_RAISES:
            x.check_unchanged(sig + '.raise')
            cover('raise')
            return
        with pc.untraced():
            src1 = x.root.src
            before = _toks(c.src)
            try:
                after = _toks(src1)
            except (tokenize.TokenError, IndentationError, SyntaxError) as e:
                fail(sig + '.result_does_not_tokenize', (src1, str(e)))
            removed = [s for s in x.old if s not in exp] if len(exp) < len(x.old) + k else []
            # element-level token accounting: tokens of elements (by source) that left / entered the container
            def elem_toks(srcs):
                o = []
                for s in srcs:
                    o += [(t[0], t[1]) for t in _toks(s + '\n')]
                return o
            old_t, exp_t = elem_toks(x.old), elem_toks(exp)
            def msub(a_, b_):
                a_ = list(a_)
                for t in b_:
                    if t in a_:
                        a_.remove(t)
                return a_
            gone = msub(old_t, exp_t)      # tokens of elements no longer present
            came = msub(exp_t, old_t)      # tokens of new elements
            b2 = [(t[0], t[1]) for t in before]
            a2 = [(t[0], t[1]) for t in after]
            lost = msub(msub(b2, gone), a2)
            extra = msub(msub(a2, came), b2)
            if c.field == 'orelse':       # the else / elif / if header keywords are the block structure itself, rewritten with the slice (elif_ option)
                lost = [t for t in lost if t not in (('NAME', 'else'), ('NAME', 'elif'), ('NAME', 'if'))]
                extra = [t for t in extra if t not in (('NAME', 'else'), ('NAME', 'elif'), ('NAME', 'if'))]
            lost_code = [t for t in lost if t[0] != 'COMMENT']
            lost_comments = [t for t in lost if t[0] == 'COMMENT']
            check(not lost_code, sig + '.tokens_lost_outside_edited_elements', (src1, lost_code))
            check(not extra, sig + '.tokens_appeared_from_nowhere', (src1, extra))
            dup = [t for t in set(a2) if t[0] == 'COMMENT' and a2.count(t) > b2.count(t)]
            check(not dup, sig + '.comment_duplicated', (src1, dup))
            t0 = ast.parse(c.src)
            cont = c.locate_ast(t0)
            src_lines = c.src.split('\n')
            # positions of the old elements as CPython sees them (element = all positioned nodes between consecutive separators)
            removed_idx = [i for i in range(len(x.old)) if span is not None and span[0] <= i < span[1]]
            elem_nodes = _elem_extents(c, cont, len(x.old))
            if not removed_idx:
                for t in before:
                    if t[0] == 'COMMENT' and (t[0], t[1]) in lost_comments:
                        fail(f'comment_lost_on_pure_insertion:{cid}:{t[1]}:at={span[0] if span else None}', (opname, k, src1))
            else:
                lo = elem_nodes[removed_idx[0]][0]
                hi = elem_nodes[removed_idx[-1]][1]
                allowed = set(range(lo, hi + 1))       # lines of the removed span incl. comments between removed elements
                if c.field == 'orelse' and len(removed_idx) == len(x.old) and lo >= 2 and src_lines[lo - 2].lstrip().startswith('else'):
                    allowed.add(lo - 1)                      # the whole else block goes (or becomes an elif): its `else:` header line goes with it (as for a removed handler)
                if trivia_all:                               # 'all': every comment between the neighbouring elements may go with the removed ones
                    p_end = elem_nodes[removed_idx[0] - 1][1] if removed_idx[0] > 0 else getattr(cont, 'lineno', 0)
                    n_start = elem_nodes[removed_idx[-1] + 1][0] if removed_idx[-1] + 1 < len(x.old) else len(src_lines) + 1
                    l = lo - 1
                    while l > p_end and l >= 1 and (not src_lines[l - 1].strip() or src_lines[l - 1].strip().startswith('#')):
                        allowed.add(l)
                        l -= 1
                    l = hi + 1
                    while l < n_start and l <= len(src_lines) and (not src_lines[l - 1].strip() or src_lines[l - 1].strip().startswith('#')):
                        allowed.add(l)
                        l += 1
                elif not trivia_false:
                    l = lo - 1                               # default trivia: + the comment block directly above, + the line comment after it
                    while l >= 1 and src_lines[l - 1].strip().startswith('#'):
                        allowed.add(l)
                        l -= 1
                for t in before:
                    if t[0] == 'COMMENT' and (t[0], t[1]) in lost_comments:
                        check(t[2] in allowed, sig + '.comment_lost_far_from_edit', (src1, t))
            # lines wholly outside the container's extent are byte-identical, in order
            t0 = ast.parse(c.src)
            cont = c.locate_ast(t0)
            if hasattr(cont, 'lineno'):
                first = min([cont.lineno] + [d.lineno for d in getattr(cont, 'decorator_list', [])])
                lines0, lines1 = c.src.split('\n'), src1.split('\n')
                pre = lines0[:first - 1]
                post = lines0[cont.end_lineno:]
                check(lines1[:len(pre)] == pre, sig + '.lines_before_container_changed', (src1,))
                post_ne = [l for l in post if l.strip()]
                got_ne = [l for l in lines1 if l.strip()]
                check(got_ne[len(got_ne) - len(post_ne):] == post_ne if post_ne else True, sig + '.lines_after_container_changed', (src1,))
        cover('ok')
    return fn


FNT = ['fst.fst_trivia.leading_trivia', 'fst.fst_trivia.trailing_trivia', 'fst.fst_trivia.get_trivia_params', 'fst.common.next_frag']
CELLS = []
for _mode in ('none', 'block', 'all'):
    for (_nf, _w) in ((2, 2), (3, 2)):
        for _ind in (0, 2):
            for _spv in (True, False, 1, 2):
                for _bc in (0, 1):
                    _q = (_nf, _w) == (2, 2) and _spv in (True, 1) and _bc == 0 and (_ind == 2 or _spv is True)
                    if (_nf, _w) != (2, 2) and (_bc == 1 or _spv == 2 or _ind == 0):
                        continue
                    CELLS.append(Cell(f'K1.leading[{_mode},lines={_nf}x{_w},indent={_ind},space={_spv},bound_col={_bc * 2}]',
                                      _mk_leading(_nf, _w, _mode, _ind, _spv, _bc), 'K', FNT[:1],
                                      f'{_nf} free lines of {_w} symbolic characters over the classes {ALPHA!r} above an element indented {_ind}; bound at (0,{_bc * 2}); '
                                      f'comments={_mode!r}; space={_spv}', tier='quick' if _q else 'thorough', budget=600,
                                      out='integer line-number form of `comments`; more / longer lines; characters outside the listed classes (the regexes only distinguish these)'))
for _mode in ('none', 'line', 'block', 'all'):
    for (_nf, _w) in ((2, 2), (3, 2)):
        for _tail in ('', '  # c', ' ', ' \\'):
            for _spv in (True, False, 1, 2):
                _q = (_nf, _w) == (2, 2) and _tail in ('', '  # c') and _spv in (True, 1) and _mode != 'line'
                if (_nf, _w) != (2, 2) and (_spv == 2 or _tail == ' '):
                    continue
                CELLS.append(Cell(f'K1.trailing[{_mode},lines={_nf}x{_w},tail={_tail!r},space={_spv}]', _mk_trailing(_nf, _w, _mode, _tail, _spv), 'K', FNT[1:2] + FNT[3:],
                                  f'element line "x"+{_tail!r}, {_nf} free lines of {_w} symbolic characters over the classes {ALPHA!r}, then the bound; comments={_mode!r}; space={_spv}',
                                  tier='quick' if _q else 'thorough', budget=600, out='bound on the element line; integer form of `comments`'))
CELLS.append(Cell('K2.get_trivia_params', k2_trivia_params, 'K', FNT[2:3],
                  '10 leading x 12 trailing option forms, the numbers in "+N"/"-N" symbolic 0..99, neg flag, scalar / 1-tuple / 2-tuple / empty tuple', budget=900))
_QC = ('list4c', 'ifbody3', 'modbody', 'decos', 'handlers', 'cases', 'fromimp3', 'funcbody', 'bscomment', 'orelse2', 'list_hash')
for _c in pc.CARRIERS:
    if '#' not in _c.src:
        continue
    for _op, _k in (('put_slice', 0), ('put_slice', 1), ('put_slice', 2), ('insert', 1), ('view_setitem', 1)):
        for _tf in (True, False, 'all'):
            CELLS.append(Cell(f'P1.{_c.id}.{_op}[{_k}]' + ('.trivia_false' if _tf is True else '.trivia_all' if _tf else ''), _mk_tok(_c.id, _op, _k, _tf), 'P', pc.FN_EDIT + FNT,
                              f'carrier {_c.id} (comments around the elements); op {_op}[{_k}] with symbolic ints over Z; trivia={"(False, False)" if _tf is True else "('all', 'all')" if _tf else "default"}; '
                              'tokenize-based accounting of COMMENT/NAME/NUMBER/STRING tokens and byte-identity of lines outside the container',
                              tier='quick' if _c.id in _QC and ((_op, _k, _tf) in (('put_slice', 0, False), ('put_slice', 2, True), ('put_slice', 0, True), ('put_slice', 0, 'all')) or (_c.id in ('list4c', 'decos') and (_op, _k, _tf) == ('put_slice', 2, False))) else 'thorough',
                              budget=600, per_path=60, out='alignment aesthetics of multi-line slices (unspecified)', reset=pc.reset_globals))


def p2_comment_then_delete(q: int, k: int, up: int):
    """[queries] -> put_line_comment(longer) on statement k -> delete an enclosing block: no token may appear from nowhere, what remains is the
    original minus the deleted block"""
    from harness.c02 import QKINDS, prequery, ACC_SRC
    assume(0 <= q < len(QKINDS) and 0 <= up <= 2)
    qk = QKINDS[pc.pin(q, 0, len(QKINDS) - 1)]
    with pc.untraced():
        root = FST(ACC_SRC, 'exec')
        pc.reset_globals()
        stmts = [n.f for n in ast.walk(root.a) if isinstance(n, ast.stmt)]
    prequery(root, qk)
    assume(0 <= k < len(stmts))
    tgt = stmts[pc.pin(k, 0, len(stmts) - 1)]
    try:
        tgt.put_line_comment('a much longer comment than before')
    except pc.EXPECTED_RAISES:
        cover('refused')
        return
    a_ = tgt
    for _ in range(pc.pin(up, 0, 2)):
        if a_.parent is not None and a_.parent.parent is not None and isinstance(a_.parent.a, ast.stmt):
            a_ = a_.parent
    with pc.untraced():
        src1 = pc.R(root.src)
        before = [(k_, v) for k_, v, _ in _toks(src1)]
    if a_.pfield is None or a_.pfield.idx is None:
        return
    try:
        with FST.options(**pc.OPTS):
            a_.remove()
    except pc.EXPECTED_RAISES:
        cover('remove.refused')
        return
    with pc.untraced():
        src2 = pc.R(root.src)
        pc.o_parse(root, 'comment_then_delete')
        after = [(k_, v) for k_, v, _ in _toks(src2)]
        b2 = list(before)
        extra = []
        for t in after:
            if t in b2:
                b2.remove(t)
            else:
                extra.append(t)
        check(not extra, 'comment_then_delete.tokens_appeared_from_nowhere', (src2, extra))
    cover('ok')


CELLS.append(Cell('P2.comment_then_delete', p2_comment_then_delete, 'P', ['fst.fst_trivia._getput_line_comment', 'fst.fst.FST.remove', 'fst.fst.FST.bloc'],
                  'carrier with nested blocks, docstring, try/except and match; pre-query kind, target statement and which enclosing block is deleted: symbolic (finite); tokenize accounting after the delete',
                  budget=900, per_path=90, reset=pc.reset_globals))
