"""C05 — parsing is lossless and agrees with Python's parser in every parse mode (the part a solver can reach).

The parse itself is CPython (C code): a claim over arbitrary program text has no symbolic dimension once the text reaches
ast.parse, so the main clause is OUTSIDE this check (see DESIGN.md). What pfst adds around the parser — position fix-up after
parsing inside a synthetic wrapper and the guards which stop wrapper-escaping text such as 'a),(b' from being accepted —
is integer/character code and is checked here for all values of its symbolic inputs:

K1: _astloc_from_src, _offset_linenos, _syntax_error_in_loc == their direct definitions.
K2: _has_trailing_comma / _has_trailing_semicolon == an independent scanner (blanks, ')', comments to end of line, line
    continuations skipped; then the separator), with a multi-byte character before the position (byte vs character offset).
K3: _verify_no_close_delimiters raises <=> the delimiter depth of the comment-stripped text outside the first element, up to
    the first comma, goes negative.
P1: the extended parse modes on a table of fragments incl. wrapper-escape attempts: parse(mode) result == the corresponding
    sub-tree of the embedding construct parsed by CPython (positions relative to the fragment), invalid text rejected.
"""
import ast

from engine.h import Cell, assume, check, cover, fail, w8
from harness import pcommon as pc

from fst import FST
from fst import parsex
from fst.parsex import _astloc_from_src, _has_trailing_comma, _has_trailing_semicolon, _offset_linenos, _syntax_error_in_loc, _verify_no_close_delimiters

PROPERTY = 'C05'
THOROUGH_SCALE = 2.0


def _sym_str(cs, alphabet):
    s = ''
    for c in cs:
        ok = False
        for a in alphabet:
            ok = ok or c == a
        assume(ok)
        s = s + chr(c)
    return s


A1 = (10, 97, 0xE9, 0x1D4B3, 32)


def _mk_astloc(n):
    def k1(c0: int, c1: int, c2: int, c3: int, c4: int, lineno: int):
        cs = [c0, c1, c2, c3, c4]
        for c in cs[n:]:
            assume(c == 97)
        src = _sym_str(cs[:n], A1)
        got = _astloc_from_src(src, lineno)
        nl = 0
        last_bytes = 0
        for c in cs[:n]:
            if c == 10:
                nl += 1
                last_bytes = 0
            else:
                last_bytes += w8(c)
        check(got['lineno'] == lineno and got['col_offset'] == 0, 'astloc.start_wrong')
        check(got['end_lineno'] == lineno + nl, 'astloc.end_lineno_wrong', (nl,))
        check(got['end_col_offset'] == last_bytes, 'astloc.end_col_offset_wrong', (last_bytes,))
        cover('ok')
    return k1


def k1_offset_linenos(l0: int, l1: int, l2: int, l3: int, delta: int):
    assume(1 <= l0 <= l1 and 1 <= l2 <= l3 and l0 <= l2 and l3 <= l1)
    inner = ast.Name('a', ast.Load(), lineno=l2, col_offset=0, end_lineno=l3, end_col_offset=1)
    outer = ast.Expr(inner, lineno=l0, col_offset=0, end_lineno=l1, end_col_offset=1)
    mod = ast.Module([outer], [])
    r = _offset_linenos(mod, delta)
    check(r is mod, 'offset_linenos.returns_other_object')
    check((outer.lineno, outer.end_lineno, inner.lineno, inner.end_lineno) == (l0 + delta, l1 + delta, l2 + delta, l3 + delta), 'offset_linenos.wrong')
    check((outer.col_offset, outer.end_col_offset, inner.col_offset, inner.end_col_offset) == (0, 1, 0, 1), 'offset_linenos.touched_columns')
    cover('ok')


def k1_syntax_error_in_loc(el: int, ec: int, lineno: int, column: int, end_lineno: int, end_column: int, nl: int):
    assume(0 <= nl <= 3 and end_lineno < 0)
    src = 'x' + '\n' * pc.pin(nl, 0, 3)
    exc = SyntaxError('m', ('<f>', el, ec, 'text', el, ec + 1))
    got = _syntax_error_in_loc(exc, src, lineno, column, end_lineno, end_column)
    last = lineno + nl + 2 + end_lineno
    exp = ((el > lineno) or (el == lineno and ec >= column)) and ((el < last) or (el == last and ec < end_column))
    check(got == exp, 'syntax_error_in_loc.wrong', (got, exp))
    cover('ok')


A2 = (44, 59, 32, 41, 35, 92, 10, 97, 0xE9)


def _ref_trailing(s, pos, sep):
    n = len(s)
    i = pos
    while True:
        while i < n and (s[i] == ')' or s[i].isspace()):
            i += 1
        if i + 1 < n and s[i] == '\\' and s[i + 1] == '\n':
            i += 2
            continue
        if i < n and s[i] == '#':
            j = i
            while j < n and s[j] != '\n':
                j += 1
            if j < n:
                i = j + 1
                continue
        break
    return i < n and s[i] == sep


def _mk_trailing(n, semi):
    def k2(c0: int, c1: int, c2: int, c3: int, c4: int, k: int):
        cs = [c0, c1, c2, c3, c4]
        for c in cs[n:]:
            assume(c == 97)
        tail = ''
        for c in cs[:n]:
            assume(0 <= c < len(A2))
            tail = tail + chr(A2[pc.pin(c, 0, len(A2) - 1)])       # pinned: CrossHair's regex model recurses without bound on (?:[)\\s]*(...)?)*
        cs = [ord(ch) for ch in tail] + cs[n:]
        src = 'x\né = (ü' + tail            # the node ends after 'ü' on line 2: byte offset 8, character offset 6 (absolute character position 2 + 6 = 8)
        assume(0 <= k <= n)
        kk = pc.pin(k, 0, n)
        # position = after kk more characters of the tail, only meaningful when they are on the same line: bytes computed independently
        for c in cs[:kk]:
            assume(c != 10)
        boff = 8
        for c in cs[:kk]:
            boff = boff + w8(c)
        fn = _has_trailing_semicolon if semi else _has_trailing_comma
        got = fn(src, 2, boff)
        exp = _ref_trailing(src, 8 + kk, ';' if semi else ',')
        check(bool(got) == bool(exp), 'has_trailing_separator.wrong', (kk, semi))
        cover('ok')
    return k2


A3 = (40, 41, 44, 35, 97)


def _mk_noclose(w, e0, e1):
    def k3(a0: int, a1: int, a2: int, a3: int, b0: int, b1: int, b2: int, b3: int):
        la = _sym_str([a0, a1, a2, a3][:w], A3)
        for c in [a0, a1, a2, a3][w:] + [b0, b1, b2, b3][w:]:
            assume(c == 97)
        lb = _sym_str([b0, b1, b2, b3][:w], A3)
        lines = [la, lb]
        raised = False
        try:
            _verify_no_close_delimiters(lines, 0, e0, 0, e1, 1)
        except SyntaxError:
            raised = True
        # reference: text before the element + text after it up to the first comma, comments stripped; depth must never go negative
        def strip_comment(s):
            i = s.find('#')
            return s if i == -1 else s[:i]
        parts = [la[:e0]]
        rest = strip_comment(la[e1:])
        i = rest.find(',')
        if i != -1:
            parts.append(rest[:i])
        else:
            parts.append(rest)
            r2 = strip_comment(lb)
            j = r2.find(',')
            parts.append(r2 if j == -1 else r2[:j])
        depth = 0
        neg = False
        for p in parts:
            for ch in p:
                if ch == ')':
                    depth -= 1
                    if depth < 0:
                        neg = True
                elif ch == '(':
                    depth += 1
        check(raised == neg, 'verify_no_close_delimiters.wrong', (e0, e1, raised, neg))
        cover('raise' if raised else 'ok')
    return k3


# ---------------------------------------------------------------------------------------------------------------- P1
# (mode, fragment, embedding source with {} , path to the sub-tree in the embedding, line/col of the fragment start in the embedding)
FRAGS = [
    ('expr', 'a + b', 'x = ({})', lambda t: t.body[0].value, (1, 5)),
    ('expr', 'a if b else c', 'x = ({})', lambda t: t.body[0].value, (1, 5)),
    ('expr_slice', 'a:b:c', 'x[{}]', lambda t: t.body[0].value.slice, (1, 2)),
    ('expr_slice', 'a:b, c', 'x[{}]', lambda t: t.body[0].value.slice, (1, 2)),
    ('expr_arglike', '*a or b', 'f({})', lambda t: t.body[0].value.args[0], (1, 2)),
    ('keyword', 'k=v', 'f({})', lambda t: t.body[0].value.keywords[0], (1, 2)),
    ('keyword', '**kw', 'f({})', lambda t: t.body[0].value.keywords[0], (1, 2)),
    ('alias', 'a.b as c', 'import {}', lambda t: t.body[0].names[0], (1, 7)),
    ('withitem', 'a as b', 'with {}: pass', lambda t: t.body[0].items[0], (1, 5)),
    ('ExceptHandler', 'except E as e: pass', 'try: pass\n{}', lambda t: t.body[0].handlers[0], (2, 0)),
    ('match_case', 'case [a, *b]: pass', 'match x:\n {}', lambda t: t.body[0].cases[0], (2, 1)),
    ('pattern', '{"k": v, **r}', 'match x:\n case {}: pass', lambda t: t.body[0].cases[0].pattern, (2, 6)),
    ('pattern', 'a | b', 'match x:\n case {}: pass', lambda t: t.body[0].cases[0].pattern, (2, 6)),
    ('comprehension', 'for i in a if b', '[_ {}]', lambda t: t.body[0].value.generators[0], (1, 3)),
    ('arguments', 'a, /, b=1, *c, d, **e', 'def f({}): pass', lambda t: t.body[0].args, (1, 6)),
    ('arguments_lambda', 'a, *b', 'lambda {}: None', lambda t: t.body[0].value.args, (1, 7)),
    ('arg', 'a: int', 'def f({}): pass', lambda t: t.body[0].args.args[0], (1, 6)),
    ('type_param', 'T: int', 'def f[{}](): pass', lambda t: t.body[0].type_params[0], (1, 6)),
    ('operator', '//', 'a {} b', lambda t: t.body[0].value.op, None),
    ('cmpop', 'is not', 'a {} b', lambda t: t.body[0].value.ops[0], None),
    ('boolop', 'and', 'a {} b', lambda t: t.body[0].value.op, None),
    ('unaryop', 'not', '{} b', lambda t: t.body[0].value.op, None),
    ('stmt', 'x = 1', '{}', lambda t: t.body[0], (1, 0)),
    ('expr', 'é + "ñ"  # c', 'x = ({}\n)', lambda t: t.body[0].value, (1, 5)),
    ('expr', '(a\n + b)', 'x = ({})', lambda t: t.body[0].value, (1, 5)),
    # unparenthesised tuples which only parse inside pfst's wrapper: the subscript slice is where Python itself allows them to span lines
    ('expr', 'a,\n"é" # c', '_[\n{}\n]', lambda t: t.body[0].value.slice, (2, 0)),
    ('expr', 'a,\nb, "日本" # comment', '_[\n{}\n]', lambda t: t.body[0].value.slice, (2, 0)),
    ('expr', 'é, "ñ"   ', '_[\n{}\n]', lambda t: t.body[0].value.slice, (2, 0)),
    ('expr', '# lead\n"𝒳", b  # t', '_[\n{}\n]', lambda t: t.body[0].value.slice, (2, 0)),
    ('expr', 'a,\nb,', '_[\n{}\n]', lambda t: t.body[0].value.slice, (2, 0)),
    ('expr', '"é", (b),  # c', '_[\n{}\n]', lambda t: t.body[0].value.slice, (2, 0)),
]
ESCAPES = [   # must be rejected: valid only BECAUSE of a wrapper
    ('expr', 'a), (b'), ('expr', ') + ('), ('expr', 'a)\n(b'), ('expr_slice', 'a], x[b'), ('expr_arglike', 'a), f(b'), ('keyword', 'k=v), f(j=w'),
    ('alias', 'a\nimport b'), ('withitem', 'a: pass\nwith b'), ('pattern', 'a: pass\n case b'), ('comprehension', 'for i in a] + [j'), ('arguments', 'a): pass\ndef g(b'),
    ('arg', 'a): pass\ndef g(b'), ('type_param', 'T](): pass\ndef g[U'), ('expr', 'a # c\n) + (b'), ('expr', ''), ('expr', 'a b'), ('stmt', 'x = 1; y = 2'), ('expr', 'x = 1'),
    ('pattern', '1 + 2'), ('withitem', 'a as (b'), ('keyword', 'a, b=1'), ('keyword', 'b=1, *a'), ('keyword', 'a=1).b(c=2'), ('arg', 'a, b'), ('pattern', 'a if b'),
    ('pattern', 'a:\n  if 1'), ('expr_slice', '1].b[2'), ('alias', 'a, b'), ('withitem', 'a, b'), ('type_param', 'T, U'), ('comprehension', 'for i in a for j in b'), ('arguments', 'a) -> (b'), ('match_case', 'case a: pass\ncase b: pass'), ('ExceptHandler', 'except A: pass\nexcept B: pass'),
]


def p1_modes(i: int, esc: bool):
    tab = ESCAPES if esc else FRAGS
    assume(0 <= i < len(tab))
    row = tab[pc.pin(i, 0, len(tab) - 1)]
    mode, frag = row[0], row[1]
    if esc:
        try:
            a = parsex.parse(frag, mode)
        except (SyntaxError, ValueError) as ex:
            cover('rejected')
            return
        fail('parse.wrapper_escape_accepted', (mode, frag, ast.dump(a)[:200]))
    _, _, emb, path, start = row
    try:
        a = parsex.parse(frag, mode)
    except (SyntaxError, ValueError) as ex:
        fail('parse.valid_fragment_rejected', (mode, frag, str(ex)[:150]))
    with pc.untraced():
        ref = path(ast.parse(emb.format(frag)))
        check(ast.dump(a) == ast.dump(ref), 'parse.structure_differs_from_embedding_construct', (mode, frag, ast.dump(a)[:300], ast.dump(ref)[:300]))
        if start is not None:
            l0, c0 = start
            for x, y in zip(ast.walk(a), ast.walk(ref)):
                if hasattr(y, 'end_col_offset') and hasattr(x, 'end_col_offset'):
                    ey = (y.lineno - l0 + 1, y.col_offset - (c0 if y.lineno == l0 else 0), y.end_lineno - l0 + 1, y.end_col_offset - (c0 if y.end_lineno == l0 else 0))
                    ex = (x.lineno, x.col_offset, x.end_lineno, x.end_col_offset)
                    check(ex == ey, 'parse.positions_not_relative_to_fragment', (mode, frag, type(y).__name__, ex, ey))
        # lossless: FST built from the fragment keeps the text
        f = FST(frag, mode)
        check(f.src == frag, 'parse.source_not_kept', (mode, frag, f.src))
    cover('ok')


FNP = ['fst.parsex._astloc_from_src', 'fst.parsex._offset_linenos', 'fst.parsex._syntax_error_in_loc', 'fst.parsex._has_trailing_comma', 'fst.parsex._has_trailing_semicolon',
       'fst.parsex._verify_no_close_delimiters']
CELLS = []
for _n in (1, 2, 3, 4, 5):
    CELLS.append(Cell(f'K1.astloc_from_src[len={_n}]', _mk_astloc(_n), 'K', FNP[:1], f'source of {_n} symbolic characters over {{newline, a, é, 𝒳, space}}; lineno any integer',
                      tier='quick' if _n <= 4 else 'thorough', budget=600, out='longer sources'))
CELLS.append(Cell('K1.offset_linenos', k1_offset_linenos, 'K', FNP[1:2], 'nested nodes with all four line numbers and the delta any integers', budget=120))
CELLS.append(Cell('K1.syntax_error_in_loc', k1_syntax_error_in_loc, 'K', FNP[2:3], 'error position, window and negative end_lineno: all integers; source with 0-3 newlines', budget=300))
for _n in (1, 2, 3, 4):
    for _semi in (False, True):
        CELLS.append(Cell(f'K2.has_trailing_{"semicolon" if _semi else "comma"}[len={_n}]', _mk_trailing(_n, _semi), 'K', FNP[3:5],
                          f'2-line source with multi-byte characters before the position, followed by {_n} characters over {{, ; space ) # backslash newline a é}} (finite choice, pinned: the pattern is outside CrossHair\'s regex model); position after 0..{_n} of them',
                          tier='quick' if _n <= 3 else 'thorough', budget=900, out='longer tails'))
for _w in (2, 3):
    for _e0 in range(_w + 1):
        for _e1 in range(_e0, _w + 1):
            CELLS.append(Cell(f'K3.verify_no_close_delimiters[2x{_w},elem={_e0}:{_e1}]', _mk_noclose(_w, _e0, _e1), 'K', FNP[5:],
                              f'2 lines of {_w} symbolic characters over {{( ) , # a}}; first element = columns [{_e0}, {_e1}) of line 0',
                              tier='quick' if _w == 2 else 'thorough', budget=900, out='elements spanning lines; other delimiters; longer lines'))
CELLS.append(Cell('P1.parse_modes', p1_modes, 'P', ['fst.parsex.parse', 'fst.fst.FST.__new__'],
                  f'{len(FRAGS)} fragments x their parse modes vs the sub-tree of the embedding construct parsed by CPython (positions relative to the fragment), '
                  f'{len(ESCAPES)} wrapper-escape / invalid texts which must be rejected (finite tables, solver-enumerated)', budget=600, per_path=60,
                  out='ARBITRARY source text: it must pass through ast.parse (C), no symbolic dimension survives — main clause of C05 not claimed'))


# ---------------------------------------------------------------------------------------------------------------- P2
# every mode of the C19 table, several fragments each, in several layouts; oracle = CPython parse of the construct holding the fragment
from harness import c19  # noqa: E402  (at import time: it registers the symbolic bistr patch, which must not happen while tracing)

def _layouts(frag, mode):
    out = [('plain', frag)]
    bracketed = all('\n)' in c_[0] or '\n]' in c_[0] or '\n ]' in c_[0] or '\n )' in c_[0] for c_ in c19.MODES[mode][0])
    if bracketed:
        out.append(('trailing_comment', frag + '  # tc'))
        out.append(('trailing_newline', frag + '\n'))
        if '\n' not in frag and ', ' in frag:
            out.append(('split_after_comma', frag.replace(', ', ',  # k\n    ', 1)))
    if 'a' in frag and '"' not in frag:
        out.append(('non_ascii_names', ''.join('é' if ch == 'a' and not (frag[i - 1:i].isalnum() or frag[i + 1:i + 2].isalnum()) else ch for i, ch in enumerate(frag))))
    if ' = ' in frag or ' + ' in frag or ' | ' in frag:
        out.append(('wide_spaces', frag.replace(' = ', '   =  ').replace(' + ', '  +   ').replace(' | ', '  |   ')))
    return out


def p2_mode_rows(i: int, lay: int):
    assume(0 <= i < len(c19.ROWS))
    frag, mode, _h = c19.ROWS[pc.pin(i, 0, len(c19.ROWS) - 1)]
    lays = _layouts(frag, mode)
    assume(0 <= lay < len(lays))
    lname, text = lays[pc.pin(lay, 0, len(lays) - 1)]
    with pc.untraced():
        # the layout must itself be valid for Python in this mode's construct, else it is not a test of pfst
        ok = False
        for emb, path, _st, joined, _wr in c19.MODES[mode][0]:
            try:
                path(ast.parse(emb.format(c19._join(text) if joined else text)))
                ok = True
                break
            except (SyntaxError, IndexError, AttributeError, ValueError):
                pass
    assume(ok)
    try:
        f = FST(text, mode)
    except (SyntaxError, ValueError) as ex:
        fail('parse_mode.valid_fragment_rejected', (mode, lname, text, str(ex)[:150]))
    with pc.untraced():
        check(f.src == text, 'parse_mode.source_not_kept', (mode, lname, text, f.src))
        c19.mode_oracle(f, mode, 'parse_mode', (mode, lname, text))
    cover('ok')


CELLS.append(Cell('P2.mode_rows', p2_mode_rows, 'P', ['fst.parsex.parse', 'fst.fst.FST.__new__'],
                  'the 89 (fragment, mode) rows of the C19 table (33 distinct modes incl. every special slice) x up to 6 layouts each (plain, trailing comment, trailing newline, split after a comma with a '
                  'comment, non-ASCII names, wide spacing); the tree must equal CPython\'s parse of the construct holding the fragment incl. relative positions, the source is kept (finite table, solver-enumerated)',
                  budget=900, per_path=60, out='arbitrary source text (C parser: no symbolic dimension survives)'))


# ---------------------------------------------------------------------------------------------------------------- P3
LINE_END_SRCS = ['a = 1\nb = (2,\n     3)\n', 'a = 1\r\nb = (2,\r\n     3)\r\n', 'a = 1\rb = 2\r', 'if a:\r    b\r', 'a = 1\r\nb = 2\rc = 3\n', 'x = "é"\r\ny = x\r\n']


def p3_line_endings(i: int):
    """whatever Python accepts as a line end, every node's location must denote the node's own text (Python's ast.get_source_segment)"""
    assume(0 <= i < len(LINE_END_SRCS))
    src = LINE_END_SRCS[pc.pin(i, 0, len(LINE_END_SRCS) - 1)]
    kind = 'crlf' if '\r\n' in src and '\r' not in src.replace('\r\n', '') else 'bare_cr' if '\r' in src else 'lf'
    with pc.untraced():
        t = ast.parse(src)
    try:
        root = FST(src, 'exec')
    except Exception as ex:   # noqa: BLE001
        fail('line_endings.valid_source_rejected:' + kind, (src, type(ex).__name__, str(ex)[:100]))
    with pc.untraced():
        check(root.src == src, 'line_endings.source_not_kept:' + kind, (src, root.src))
        check(ast.dump(root.a, include_attributes=True) == ast.dump(t, include_attributes=True), 'line_endings.tree_differs_from_python_parse:' + kind, (src,))
        for n, m_ in zip(ast.walk(root.a), ast.walk(t)):
            if hasattr(m_, 'end_col_offset'):
                try:
                    got = n.f.src
                except Exception as ex:   # noqa: BLE001
                    fail('line_endings.location_does_not_denote_text:' + kind, (src, type(n).__name__, type(ex).__name__))
                exp = ast.get_source_segment(src, m_)
                check(got.replace('\r\n', '\n').replace('\r', '\n') == (exp or '').replace('\r\n', '\n').replace('\r', '\n'), 'line_endings.location_does_not_denote_text:' + kind, (src, type(n).__name__, got, exp))
    cover('ok')


CELLS.append(Cell('P3.line_endings', p3_line_endings, 'P', ['fst.fst.FST.__new__', 'fst.fst.FST.loc'], f'{len(LINE_END_SRCS)} sources with LF, CRLF, bare CR and mixed line ends: source kept, tree == CPython parse, every location denotes the node text',
                  budget=120, per_path=60, out='form feed and other separators which Python does not treat as line ends'))
