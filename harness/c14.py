"""C14 — traversal visits every node once, in source order, consistently across APIs.

T1: the hand-written position merges (_syntax_ordered_children_Call / _ClassDef) are correct merges for EVERY assignment of
    (line, column) positions to positional arguments / bases and keywords (each source list sorted, all distinct).
P1: agreement of walk / step_fwd / step_back / next / prev / next_child / prev_child / child_path on a node-type-complete
    carrier set, with `all` mode, direction and the start node symbolic (finite choice — the solver's job here is only to
    cover the choice space; the oracle is ast.walk + source positions).
"""
import ast
import inspect

from engine.h import Cell, assume, check, cover, fail, pos_lt
from harness import pcommon as pc

from fst import FST
from fst.astutil import syntax_ordered_children

PROPERTY = 'C14'
THOROUGH_SCALE = 2.0


# ---------------------------------------------------------------------------------------------------------------- T1
def _mk_merge(kind, nargs, nstar, nkw):
    """nargs plain positional (must come first in Python), then nstar Starred, nkw keywords; Starred and keywords interleave freely."""
    names = [f'l{i}' for i in range(nargs + nstar + nkw)] + [f'c{i}' for i in range(nargs + nstar + nkw)]

    def fn(*v):
        n = nargs + nstar + nkw
        ls, cs = v[:n], v[n:]
        for l, c in zip(ls, cs):
            assume(1 <= l <= 3 and c >= 0)
        pos = list(zip(ls, cs))
        a_pos, k_pos = pos[:nargs + nstar], pos[nargs + nstar:]
        for i in range(1, len(a_pos)):
            assume(pos_lt(a_pos[i - 1], a_pos[i]))
        for i in range(1, len(k_pos)):
            assume(pos_lt(k_pos[i - 1], k_pos[i]))
        for p in a_pos:
            for q in k_pos:
                assume(p != q)
        for p in a_pos[:nargs]:          # Python: a plain positional argument cannot follow a keyword
            for q in k_pos:
                assume(pos_lt(p, q))
        args = []
        for i, (l, c) in enumerate(a_pos):
            nm = ast.Name(f'a{i}', ast.Load(), lineno=l, col_offset=c, end_lineno=l, end_col_offset=c + 1)
            if i >= nargs:
                nm = ast.Starred(nm, ast.Load(), lineno=l, col_offset=c, end_lineno=l, end_col_offset=c + 1)
            args.append(nm)
        kws = []
        for i, (l, c) in enumerate(k_pos):
            val = ast.Name(f'v{i}', ast.Load(), lineno=l, col_offset=c, end_lineno=l, end_col_offset=c + 1)
            kws.append(ast.keyword(f'k{i}', val, lineno=l, col_offset=c, end_lineno=l, end_col_offset=c + 1))
        if kind == 'Call':
            func = ast.Name('f', ast.Load(), lineno=1, col_offset=0, end_lineno=1, end_col_offset=1)
            node = ast.Call(func, args, kws)
            got = syntax_ordered_children(node)
            check(got[0] is func, 'merge.Call.func_not_first')
            got = got[1:]
        else:
            body = ast.Pass(lineno=9, col_offset=4, end_lineno=9, end_col_offset=8)
            node = ast.ClassDef('C', args, kws, [body], [], [])
            got = syntax_ordered_children(node)
            check(got[-1] is body, 'merge.ClassDef.body_not_last')
            got = got[:-1]
        exp = args + kws
        check(len(got) == len(exp), f'merge.{kind}.lost_or_duplicated_child', (len(got), len(exp)))
        for x in exp:
            cnt = 0
            for g in got:
                if g is x:
                    cnt += 1
            check(cnt == 1, f'merge.{kind}.not_a_permutation')
        for i in range(1, len(got)):
            check(pos_lt((got[i - 1].lineno, got[i - 1].col_offset), (got[i].lineno, got[i].col_offset)), f'merge.{kind}.not_in_source_order', i)
        cover('ok')
    fn.__signature__ = inspect.Signature([inspect.Parameter(nm, inspect.Parameter.POSITIONAL_OR_KEYWORD, annotation=int) for nm in names])
    return fn


# ---------------------------------------------------------------------------------------------------------------- P1
API_SRCS = {
    'defs': ('@d1\n@d2(x)\nclass C[T, *U, **V](B, *bs, metaclass=M, **kw):\n    """doc"""\n    a: int = 1\n'
             '    @deco\n    async def m[S: int](self, p, /, q=1, *r, s, t=2, **u) -> None:\n        async with a as b, c: pass\n'
             '        async for i in j: await k\n        else: return\n        yield; yield from z\n'
             'def g(*, k): global G; nonlocal_ = lambda x, *y, z=1, **w: x\n'
             'def h():\n    q = 1\n    def i(): nonlocal q\n'
             'def po(a, b, /): pass\nlam = lambda a, /: a\nclass E: pass\n'),
    'stmts': ('import a.b as c, d\nfrom . import (e as f, g)\nx = y = z\nx += 1\nx: int\ndel x, y[0]\nassert a, b\nraise E from F\n'
              'type X[T] = list[T]\nfor i in a:\n    break\nelse:\n    continue\nwhile a: pass\nelse: pass\n'
              'try:\n    pass\nexcept A as e:\n    pass\nexcept B: pass\nelse:\n    pass\nfinally:\n    pass\n'
              'try: pass\nexcept* (A, B): pass\nwith (a as b, c): pass\nif a: pass\nelif b: pass\nelse: pass\n'),
    'exprs': ('r = f(a, *b, k=v, *c, **d)(x)\ns = {a: 1, **b, c: 2} | {1, 2} | {k: v for k, v in z if k if v}\n'
              't = [i for i in a for j in b] + list(i async for i in c) + [{i, j} for j in d]\n'
              'u = a if b else c or d and not e\nv = a < b <= c != d is not e not in f\nw = -a + ~b ** +c // d @ e % g << 1 >> 2 & 3 ^ 4\n'
              'o = [a * b / c - d] + [{i for i in s}]\np = a == b > c >= d in e is f\n'
              'x = a.b[c:d:e, ...].f[1:]\ny = (n := 1, *s, (yield))\nz = f"a{b!r:>{w}}c{d=}" "e" + b"b" + 1j\nq = lambda: (await aw)\n'),
    'match': ('match s:\n    case 1 | "a" | None: pass\n    case [a, *r] if g: pass\n    case {"k": v, **rest}: pass\n'
              '    case C(p, k=q) as w: pass\n    case (x.y | -1 | 1+2j): pass\n    case _: pass\n'),
}


def _mk_api(key):
    src = API_SRCS[key]

    def fn(sel: int, k: int, back: bool):
        assume(0 <= sel <= 2)
        all_ = [True, False, 'loc'][pc.pin(sel, 0, 2)]
        with pc.untraced():
            root = FST(src, 'exec')
            ref_nodes = list(ast.walk(root.a))
            N = len(ref_nodes)
        assume(0 <= k < N)
        kk = pc.pin(k, 0, N - 1)
        sig = f'api.{key}'
        W = list(root.walk(all_, back=back))
        if kk == 0:
            # whole-walk relations
            ids = [id(f) for f in W]
            check(len(set(ids)) == len(ids), sig + '.walk_yields_node_twice', (all_, back))
            if all_ is True:
                check(set(ids) == {id(n.f) for n in ref_nodes}, sig + '.walk_set_differs_from_ast_walk',
                      (len(ids), N, sorted({type(n).__name__ for n in ref_nodes if id(n.f) not in set(ids)})))
            seen = set()
            for f in W:
                p = f.parent
                while p is not None and id(p) not in set(ids):   # parents filtered out by `all`
                    p = p.parent
                check(p is None or id(p) in seen, sig + '.child_before_parent', (all_, back, type(f.a).__name__))
                seen.add(id(f))
            # siblings in order of their text (forward) / reverse (back): compare starts of consecutive siblings sharing a parent
            last_by_parent = {}
            for f in W:
                loc = f.loc
                if loc is None or f.parent is None:
                    continue
                pid = id(f.parent)
                if pid in last_by_parent:
                    prev = last_by_parent[pid]
                    a_, b_ = (prev[0], prev[1]), (loc[0], loc[1])
                    ok = (a_ <= b_) if not back else (b_ <= a_)
                    check(ok, sig + '.siblings_not_in_source_order', (all_, back, type(f.a).__name__, tuple(loc)))
                last_by_parent[pid] = loc
            # back reverses sibling order only
            Wf = list(root.walk(all_))
            Wb = list(root.walk(all_, back=True))
            kids_f, kids_b = {}, {}
            for lst, dct in ((Wf, kids_f), (Wb, kids_b)):
                for f in lst:
                    if f.parent is not None:
                        dct.setdefault(id(f.parent), []).append(id(f))
            check(kids_f.keys() == kids_b.keys(), sig + '.back_visits_other_parents')
            for pid, lst in kids_f.items():
                check(kids_b[pid] == lst[::-1], sig + '.back_is_not_reversed_sibling_order', (all_,))
            # leave / both
            Wl = list(root.walk(all_, 'leave'))
            check(sorted(map(id, Wl)) == sorted(map(id, Wf)), sig + '.leave_set_differs', (all_,))
            done = set()
            for f in Wl:
                for c in Wf:
                    if c.parent is f:
                        check(id(c) in done, sig + '.leave_parent_before_child', (all_, type(f.a).__name__))
                done.add(id(f))
            stack = []
            entered = []
            for f, leaving in root.walk(all_, 'both'):
                if not leaving:
                    stack.append(id(f))
                    entered.append(id(f))
                else:
                    check(stack and stack[-1] == id(f), sig + '.both_not_bracketed', (all_, type(f.a).__name__))
                    stack.pop()
            check(not stack and entered == list(map(id, Wf)), sig + '.both_enter_order_differs', (all_,))
            # step_fwd / step_back reproduce the walk
            seq = []
            f = root
            while f is not None and len(seq) <= N + 2:
                seq.append(id(f))
                f = f.step_fwd(all_)
            exp = list(map(id, Wf))
            if exp and exp[0] != id(root):
                exp = [id(root)] + exp
            check(seq == exp, sig + '.step_fwd_differs_from_walk', (all_, len(seq), len(exp)))
            cover('whole')
        # per-node relations for node kk
        node = ref_nodes[kk].f
        kids = list(node.walk(all_, self_=False, recurse=False))
        chain = []
        c = node.next_child(None, all_)
        while c is not None and len(chain) <= N:
            chain.append(c)
            c = node.next_child(c, all_)
        check(list(map(id, chain)) == list(map(id, kids)), sig + '.next_child_chain_differs_from_walk', (all_, type(node.a).__name__, len(chain), len(kids)))
        rchain = []
        c = node.prev_child(None, all_)
        while c is not None and len(rchain) <= N:
            rchain.append(c)
            c = node.prev_child(c, all_)
        check(list(map(id, rchain)) == list(map(id, kids))[::-1], sig + '.prev_child_chain_differs_from_walk', (all_, type(node.a).__name__))
        for i, c in enumerate(kids):
            nx = c.next(all_)
            pv = c.prev(all_)
            check(nx is (kids[i + 1] if i + 1 < len(kids) else None), sig + '.next_differs_from_walk', (all_, type(node.a).__name__, i))
            check(pv is (kids[i - 1] if i > 0 else None), sig + '.prev_differs_from_walk', (all_, type(node.a).__name__, i))
        # the same walk started at THIS node, in every `on` mode and under type filters: filtering commutes with walking
        for flt, pred in (((all_, None),) if all_ is not True else ((all_, None), (ast.Name, lambda a_: type(a_) is ast.Name), ({ast.Name, ast.Constant, ast.arg}, lambda a_: type(a_) in (ast.Name, ast.Constant, ast.arg)))):     # the type filters do not depend on `all_`: once
            for bk in (False, True):
                full_e = list(node.walk(True if pred else flt, back=bk))
                full_l = list(node.walk(True if pred else flt, 'leave', back=bk))
                full_b = list(node.walk(True if pred else flt, 'both', back=bk))
                if pred is None:
                    exp_e, exp_l, exp_b = full_e, full_l, full_b
                    got_e, got_l, got_b = full_e, full_l, full_b
                else:
                    exp_e = [f for f in full_e if pred(f.a)]
                    exp_l = [f for f in full_l if pred(f.a)]
                    exp_b = [(f, lv) for f, lv in full_b if pred(f.a)]
                    got_e = list(node.walk(flt, back=bk))
                    got_l = list(node.walk(flt, 'leave', back=bk))
                    got_b = list(node.walk(flt, 'both', back=bk))
                tag = (type(node.a).__name__, 'all' if pred is None else str(flt)[:40], bk)
                check(list(map(id, got_e)) == list(map(id, exp_e)), sig + '.filtered_walk_differs_from_filtering_the_full_walk', tag)
                check(list(map(id, got_l)) == list(map(id, exp_l)), sig + '.filtered_leave_walk_differs_from_filtering_the_full_walk', tag)
                check([(id(f), lv) for f, lv in got_b] == [(id(f), lv) for f, lv in exp_b], sig + '.filtered_both_walk_differs_from_filtering_the_full_walk', tag)
                check(sorted(map(id, got_l)) == sorted(map(id, got_e)), sig + '.leave_and_enter_yield_different_node_sets', tag)
                st_ = []
                for f, lv in got_b:
                    if not lv:
                        st_.append(id(f))
                    else:
                        check(st_ and st_[-1] == id(f), sig + '.both_not_bracketed_from_node', tag)
                        st_.pop()
                check(not st_ and [id(f) for f, lv in got_b if not lv] == list(map(id, got_e)), sig + '.both_enter_order_differs_from_node', tag)
        # paths
        path = root.child_path(node)
        check(root.child_from_path(path) is node, sig + '.child_path_roundtrip', (type(node.a).__name__,))
        cover('node')
    return fn


def _coverage_note():
    have = set()
    for s in API_SRCS.values():
        have |= {type(n).__name__ for n in ast.walk(ast.parse(s))}
    allc = {n for n in dir(ast) if isinstance(getattr(ast, n), type) and issubclass(getattr(ast, n), ast.AST)
            and not getattr(ast, n).__subclasses__() and n not in ('AST', 'Interactive', 'Expression', 'FunctionType', 'Suite', 'AugLoad', 'AugStore', 'Param',
                                                                  'Index', 'ExtSlice', 'Num', 'Str', 'Bytes', 'NameConstant', 'Ellipsis', 'TypeIgnore', 'slice')}
    return sorted(allc - have)


MISSING = _coverage_note()

CELLS = []
for _kind in ('Call', 'ClassDef'):
    for (_na, _ns, _nk) in ((0, 1, 1), (1, 1, 1), (0, 2, 1), (0, 1, 2), (1, 2, 2), (0, 2, 2), (1, 1, 2), (0, 3, 1), (0, 1, 3), (0, 3, 2), (0, 2, 3), (2, 2, 2), (0, 3, 3), (0, 4, 1), (0, 1, 4)):
        _q = _na + _ns + _nk <= 4
        CELLS.append(Cell(f'T1.merge[{_kind},plain={_na},star={_ns},kw={_nk}]', _mk_merge(_kind, _na, _ns, _nk), 'T',
                          ['fst.astutil._syntax_ordered_children_Call', 'fst.astutil._syntax_ordered_children_ClassDef', 'fst.astutil.syntax_ordered_children'],
                          f'{_kind} with {_na} plain + {_ns} starred positional and {_nk} keywords; every (lineno in 1..3, col_offset >= 0 unbounded) symbolic; '
                          'each list sorted, all positions distinct, plain positionals before every keyword',
                          tier='quick' if _q else 'thorough', budget=900, out='more than 3 starred / 3 keywords; more than 3 lines'))
for _k in API_SRCS:
    CELLS.append(Cell(f'P1.api[{_k}]', _mk_api(_k), 'P',
                      ['fst.fst_traverse.walk', 'fst.fst_traverse.step_fwd', 'fst.fst_traverse.step_back', 'fst.fst_traverse.next', 'fst.fst_traverse.prev',
                       'fst.fst_traverse.next_child', 'fst.fst_traverse.prev_child', 'fst.fst.FST.child_path', 'fst.fst.FST.child_from_path'],
                      f'carrier {_k} ({len(API_SRCS[_k].splitlines())} lines); all in {{True, False, "loc"}}, back bool, start node = every node (finite choice, solver-enumerated); '
                      f'AST leaf classes not covered by the carrier set: {MISSING}',
                      tier='quick', budget=900, per_path=120, out='programs outside the carrier set', reset=pc.reset_globals))
