"""C16 — scope analysis agrees with Python's own symbol table.

T/P: program TEMPLATES with identifier slots; the identifier in every slot is chosen symbolically from a 3-letter alphabet, so the
     solver ranges over every ALIASING pattern (which slots share a name) — which is what scoping rules are about. Names are
     realised before the text reaches CPython (parser and symtable are C), so each leaf is concrete: the symbolic part buys the
     aliasing partition, nothing more (stated in evidence). Oracle: symtable.symtable(): for every scope of the program,
     walk(scope=True) yields exactly the Name/arg nodes CPython attributes to that scope, and scope_symbols(full=True)
     categories equal the symtable flags under a fixed mapping.
"""
import ast
import symtable

from engine.h import Cell, assume, check, cover, fail
from harness import pcommon as pc

from fst import FST

PROPERTY = 'C16'
THOROUGH_SCALE = 2.0

NAMES = ['a', 'b', 'c']
TEMPLATES = {
    'func_defaults': 'def f({0}, {1}={2}):\n    {3} = {0} + {1}\n    return {2}\n',
    'nested_func': 'def f({0}):\n    {1} = 1\n    def g({2}):\n        return {0} + {1} + {3}\n    return g\n',
    'global_nonlocal': 'def f():\n    {0} = 1\n    def g():\n        nonlocal {0}\n        global {1}\n        {0} = {1} = {2}\n    return g\n',
    'class_body': 'class K({0}):\n    {1} = {2}\n    def m(self):\n        return {1} + {3}\n',
    'lambda_kwdefault': 'def f({0}):\n    return lambda {1}, *, {2}={3}: {1} + {2}\n',
    'lambda_in_genexp': 'def f({0}):\n    return ((lambda *, {1}={2}: {1}) for {3} in {0})\n',
    'lambda_': '{0} = lambda {1}, {2}={3}: {1} + {2} + {0}\n',
    'genexp': 'def f({0}):\n    return ({1} for {1} in {2} if {3})\n',
    'genexp_call_iter': 'def f({0}):\n    return ({1} for {1} in range({2}) if {3})\n',
    'nested_genexp': 'def f({0}):\n    return ({1} + {2} for {1} in {0} for {2} in {1})\n',
    'genexp_walrus': 'def f({0}):\n    return list(({1} := {2}) for {2} in {0}), {1}\n',
    'genexp_in_genexp_iter': 'def f({0}):\n    return ({1} for {1} in ({2} for {2} in g({0})) if {3})\n',
    'listcomp_inlined': 'def f({0}):\n    return [{1} for {1} in range({2}) if {3}]\n',
    'dictcomp_inlined': '{0} = {{{1}: {2} for {1}, {2} in {3}}}\n',
    'augassign': 'def f({0}):\n    {1} += {2}\n    del {1}\n    return {0}\n',
    'del_after_use': 'def f({0}):\n    g({1})\n    del {1}\n    return {2}\n',
    'del_in_nested': 'def f({0}):\n    def h():\n        print({1})\n        del {1}\n        return {2}\n    return h, {1}\n',
    'del_global': '{0} = 1\ndef f():\n    global {1}\n    print({2})\n    del {1}\n',
    'import_dotted': 'def f():\n    import {0}.{1}.{2}\n    import {1}.{0}.x as {2}\n    from {0}.{1} import {2} as {3}\n    return {0}, {1}, {2}\n',
    'import_dotted_module': 'import {0}.{1}.{2}.y\n{3} = {0}\n',
    'lambda_walrus_in_genexp': 'def f({0}):\n    return list((lambda: ({1} := {2})) for {3} in {0})\n',
    'lambda_walrus_in_listcomp_inlined': 'def f({0}):\n    return [(lambda: ({1} := {2})) for {3} in {0}]\n',
    'imports': 'def f():\n    import {0}\n    from m import {1} as {2}\n    return {0}, {2}, {1}\n',
    'except_as': 'def f({0}):\n    try:\n        pass\n    except E as {1}:\n        {2} = {1}\n    return {2}\n',
    'match_capture': 'def f({0}):\n    match {0}:\n        case [{1}, *{2}]:\n            return {1}, {2}\n        case {{"k": {1}, **{2}}}:\n            pass\n        case K() as {3}:\n            return {3}\n',
    'decorator_annot': '@{0}\ndef f({1}: {2} = {3}) -> {0}:\n    return {1}\n',
    'type_params': 'def f[{0}]({1}: {0}) -> {0}:\n    {2} = {1}\n    return {2}\n',
    'with_for': 'def f({0}):\n    with {0} as {1}:\n        for {2} in {1}:\n            {3} = {2}\n    return {3}\n',
    'module_level': '{0} = 1\ndef f():\n    return {0} + {1}\n{2} = f()\ndel {2}\n',
}
SPECIAL = {'__class__', '__classdict__', '__module__', '__qualname__', '__classcell__', '.0', '__static_attributes__', '__firstlineno__', '.type_params', '.generic_base',
           '.defaults', '.kwdefaults', '__type_params__'}


def _scopes(tab, out):
    out.append(tab)
    for ch in tab.get_children():
        _scopes(ch, out)
    return out


def _fst_scope_nodes(root):
    """(type name, lineno) -> FST node for every scope-defining node"""
    out = {}
    for n in ast.walk(root.a):
        if isinstance(n, (ast.FunctionDef, ast.AsyncFunctionDef, ast.ClassDef, ast.Lambda, ast.ListComp, ast.SetComp, ast.DictComp, ast.GeneratorExp)):
            kind = {'FunctionDef': 'function', 'AsyncFunctionDef': 'function', 'ClassDef': 'class', 'Lambda': 'function', 'ListComp': 'function', 'SetComp': 'function',
                    'DictComp': 'function', 'GeneratorExp': 'function'}[type(n).__name__]
            name = getattr(n, 'name', {'Lambda': 'lambda', 'ListComp': 'listcomp', 'SetComp': 'setcomp', 'DictComp': 'dictcomp', 'GeneratorExp': 'genexpr'}.get(type(n).__name__))
            out.setdefault((name, n.lineno), []).append(n.f)
    return out


def _mk(key):
    tmpl = TEMPLATES[key]
    nslots = max(int(c) for c in __import__('re').findall(r'\{(\d)\}', tmpl)) + 1

    def fn(n0: int, n1: int, n2: int, n3: int):
        idx = [n0, n1, n2, n3]
        for i in range(4):
            if i < nslots:
                assume(0 <= idx[i] <= 2)
            else:
                assume(idx[i] == 0)
        names = [NAMES[pc.pin(idx[i], 0, 2)] for i in range(4)]
        src = tmpl.format(*names)
        with pc.untraced():
            try:
                tab = symtable.symtable(src, '<t>', 'exec')
                ast.parse(src)
                compile(src, '<t>', 'exec')
            except SyntaxError:
                tab = None
        assume(tab is not None)       # e.g. duplicate argument names, "name assigned before global declaration": not a program
        with pc.untraced():
            root = FST(src, 'exec')
            pc.reset_globals()
            scope_nodes = _fst_scope_nodes(root)
            tabs = _scopes(tab, [])
        for t in tabs:
            if t.get_type() == 'module':
                node = root
            else:
                if t.get_type() not in ('function', 'class'):
                    continue          # annotation / type-parameter scopes have no pfst counterpart to call scope_symbols on
                cands = scope_nodes.get((t.get_name(), t.get_lineno()), [])
                if len(cands) != 1:
                    continue          # two lambdas / comprehensions on one line: cannot be told apart by symtable's (name, lineno)
                node = cands[0]
            syms = node.scope_symbols(full=True)
            with pc.untraced():
                st = {s.get_name(): s for s in t.get_symbols() if s.get_name() not in SPECIAL and not s.get_name().startswith('.')}
                where = (key, tuple(names), t.get_type(), t.get_name())
                tag = f':{key}:{t.get_type()}'
                # PEP 709: list/set/dict comprehensions are inlined, CPython ALSO lists their names in the enclosing table; for those names only
                # "pfst reports => CPython has it" can be judged
                inlined = set()
                if key.endswith('_inlined'):      # no child table exists for an inlined comprehension: every name of this scope may come from it
                    inlined = set(st)
                aug = {n_.target.id for n_ in ast.walk(node.a) if isinstance(n_, ast.AugAssign) and isinstance(n_.target, ast.Name)}   # documented: an AugAssign target is also a load
                load = set(syms['load'])
                store = set(syms['store'])
                dele = set(syms['del'])
                exp_ref = {n for n, s in st.items() if s.is_referenced() or (n in aug and s.is_assigned())}
                exp_asg = {n for n, s in st.items() if s.is_assigned() or s.is_parameter() or s.is_imported()}
                # a class / function name defined inside a scope is 'assigned' there; the scope's own name belongs to the parent
                missing_store = exp_asg - (store | dele) - inlined
                extra_store = (store | dele) - exp_asg
                if t.get_type() == 'function' and isinstance(node.a, (ast.ListComp, ast.SetComp, ast.DictComp, ast.GeneratorExp)):
                    # walrus targets inside a comprehension are assigned in the ENCLOSING scope; symtable marks them nonlocal/global here
                    extra_store = {n for n in extra_store if not (n in st and (st[n].is_nonlocal() or st[n].is_global()))}
                check(not missing_store, 'scope_symbols.assigned_name_not_reported' + tag, (where, sorted(missing_store), src))
                check(not extra_store, 'scope_symbols.reports_store_of_name_not_assigned_in_scope' + tag, (where, sorted(extra_store), src))
                missing_load = exp_ref - load - inlined
                extra_load = load - exp_ref
                check(not missing_load, 'scope_symbols.referenced_name_not_reported' + tag, (where, sorted(missing_load), src))
                check(not extra_load, 'scope_symbols.reports_load_of_name_not_referenced_in_scope' + tag, (where, sorted(extra_load), src))
                if t.get_type() != 'module':
                    check(set(syms['global']) == {n for n, s in st.items() if s.is_declared_global()}, 'scope_symbols.global_declarations_differ' + tag, (where, sorted(syms['global']), src))
                check(set(syms['nonlocal']) == {n for n, s in st.items() if s.is_nonlocal() and not isinstance(node.a, (ast.ListComp, ast.SetComp, ast.DictComp, ast.GeneratorExp))}
                      or isinstance(node.a, (ast.ListComp, ast.SetComp, ast.DictComp, ast.GeneratorExp)), 'scope_symbols.nonlocal_declarations_differ' + tag, (where, sorted(syms['nonlocal']), src))
                exp_free = {n for n, s in st.items() if s.is_referenced() and not (s.is_assigned() or s.is_parameter() or s.is_imported()) and not s.is_declared_global()
                            and not (s.is_nonlocal() and n in syms['nonlocal'])}
                got_free = set(syms['free']) - set(syms['store'])
                if not isinstance(node.a, (ast.ListComp, ast.SetComp, ast.DictComp, ast.GeneratorExp)):
                    check(got_free - inlined == exp_free - inlined and got_free <= exp_free | inlined, 'scope_symbols.free_names_differ' + tag, (where, sorted(got_free), sorted(exp_free), src))
                    exp_local = {n for n, s in st.items() if s.is_local() and n in store}
                    check(set(syms['local']) - inlined == exp_local - inlined, 'scope_symbols.local_names_differ' + tag, (where, sorted(syms['local']), sorted(exp_local), src))
            # scope walk: exactly the Name / arg nodes of this scope
            walked = {id(f.a) for f in node.walk(True, scope=True) if isinstance(f.a, (ast.Name, ast.arg))}
            with pc.untraced():
                for f in node.walk(True, scope=True):
                    if isinstance(f.a, ast.Name) and f.a.id in st:
                        s = st[f.a.id]
                        if isinstance(f.a.ctx, ast.Load):
                            check(s.is_referenced(), 'scope_walk.yields_name_of_another_scope', (where, f.a.id, tuple(f.loc), src))
        cover('ok')
    return fn


FNS = ['fst.fst.FST.scope_symbols', 'fst.fst_traverse.walk', 'fst.fst_traverse._ScopeContext.stack_funcdef', 'fst.fst_traverse._ScopeContext.stack_ClassDef',
       'fst.fst_traverse._ScopeContext.stack_Lambda', 'fst.fst_traverse._ScopeContext.stack_comprehension', 'fst.fst_traverse._ScopeContext.walk_Comp']
CELLS = []
for _k in TEMPLATES:
    CELLS.append(Cell(f'P1.scope[{_k}]', _mk(_k), 'P', FNS,
                      f'template {TEMPLATES[_k]!r}: every identifier slot ranges over {{a, b, c}} (all aliasing patterns; invalid programs assumed away); oracle symtable.symtable',
                      tier='quick', budget=600, per_path=60, out='programs outside the templates; annotation / type-parameter scopes', reset=pc.reset_globals))
