"""C15 — walking stays sound while the tree is being modified.

P1: carriers x walk settings; the consumer's schedule is SYMBOLIC: at which yield (k1, k2 over Z) which action (replace / remove
    the current node, its parent, grand-parent, previous or next sibling; insert before) happens and what is sent back
    (nothing / False / True). At every yield: node alive, root identity, not seen before on entry; the walk ends within a
    bound; after replacing the current node its new children come next unless send(False); after removing it the walk
    continues with what follows; final tree satisfies C01 (CPython re-parse incl. positions).
P2: search()/sub-style consumers built on walk with the mutation done by the consumer.
"""
import ast

from engine.h import Cell, assume, check, cover, fail
from harness import pcommon as pc

from fst import FST

PROPERTY = 'C15'
THOROUGH_SCALE = 2.0

SRCS = {
    'lists': 'x = [a, [b, [c], d], e]\ny = (f, g)\n',
    'block': 'if a:\n    b = 1\n    c = 2\nelse:\n    d = 3\ne = [4, 5]\n',
    'calls': 'r = f(a, g(b, c), k=h(d))\ns = t.u\n',
    'nonefirst': 'x = [pre, {**v0, k1: v1, k2: v2}, post]\ng = lambda *, a, b=d1, c=d2: a\n',
    'mixed': 'def f(p, q=1):\n    r = [p, q]  # c\n    return r\nz = f(1, 2)\n',
    'boolops': 'r = (a and b) or c\ns = [x and y, not z]\n',
    'walrus': 'def f():\n    r = list(g(i := a, j := b) for x in y if (k := x))\n    return [m := n, {q: (s := t) for q in w}]\n',
    'comps': 'def f(p=[u for u in v]):\n    x = [i for i in [j for j in k] if i]\n    return {m: n for m, n in x}\n',
}
ACTIONS = ['none', 'replace_self', 'remove_self', 'replace_parent', 'remove_parent', 'remove_grandparent', 'remove_prev', 'remove_next', 'replace_next', 'insert_before']
WALKS = [dict(), dict(back=True), dict(all=True), dict(on='both'), dict(on='leave'), dict(recurse=False), dict(scope=True)]


def _expr_like(f):
    return isinstance(f.a, ast.expr) and not isinstance(f.a, (ast.Starred, ast.Slice)) and isinstance(getattr(f.a, 'ctx', ast.Load()), ast.Load)


def _do(action, g):
    """perform one consumer action on the node just yielded; returns ('replaced_self', ...) etc. Refusals by pfst are fine."""
    try:
        with FST.options(**pc.OPTS):
            if action == 'replace_self':
                if _expr_like(g):
                    g.replace('[n1, n2]')
                    return 'replaced_self'
                if isinstance(g.a, ast.stmt) and g.parent is not None:
                    g.replace('n0 = [n1, n2]')
                    return 'replaced_self'
            elif action == 'remove_self':
                if g.parent is not None and g.pfield.idx is not None:
                    g.remove()
                    return 'removed_self'
            elif action in ('replace_parent', 'remove_parent'):
                p = g.parent
                if p is not None and p.parent is not None:
                    if action == 'remove_parent' and p.pfield.idx is not None:
                        p.remove()
                        return 'removed_parent'
                    if action == 'replace_parent' and _expr_like(p):
                        p.replace('np')
                        return 'replaced_parent'
            elif action == 'remove_grandparent':
                p = g.parent
                gp = p.parent if p is not None else None
                if gp is not None and gp.parent is not None and gp.pfield.idx is not None:
                    gp.remove()
                    return 'removed_grandparent'
            elif action in ('remove_prev', 'remove_next', 'replace_next'):
                p = g.parent
                pf = g.pfield
                if p is not None and pf.idx is not None:
                    sibs = getattr(p.a, pf.name)
                    j = pf.idx + (1 if action != 'remove_prev' else -1)
                    if 0 <= j < len(sibs) and isinstance(sibs[j], ast.AST):
                        if action == 'replace_next':
                            if _expr_like(sibs[j].f):
                                sibs[j].f.replace('nn')
                                return 'replaced_next'
                        else:
                            sibs[j].f.remove()
                            return action
            elif action == 'insert_before':
                p = g.parent
                pf = g.pfield
                if p is not None and pf.idx is not None and isinstance(g.a, (ast.expr, ast.stmt)):
                    p.put_slice('ins' if isinstance(g.a, ast.expr) else 'ins = 0', pf.idx, pf.idx, pf.name, one=True)
                    return 'inserted_before'
    except pc.EXPECTED_RAISES:
        return 'refused'
    return 'n/a'


STARTS = {'root': lambda r: r, 'stmt0': lambda r: r.body[0], 'value0': lambda r: r.body[0].value if hasattr(r.body[0].a, 'value') else r.body[0]}


def _mk_walk(key, wi, two, start='root'):
    src = SRCS[key]
    wkw = WALKS[wi]
    both = wkw.get('on') == 'both'
    leave = wkw.get('on') == 'leave'

    def fn(k1: int, a1: int, s1: int, k2: int, a2: int, s2: int):
        assume(0 <= a1 < len(ACTIONS) and 0 <= s1 <= 2 and 0 <= k1 <= 60)
        if two:
            assume(0 <= a2 < len(ACTIONS) and 0 <= s2 <= 2 and k1 < k2 <= 60)
        else:
            assume(k2 == 0 and a2 == 0 and s2 == 0)
        act1, act2 = ACTIONS[pc.pin(a1, 0, len(ACTIONS) - 1)], ACTIONS[pc.pin(a2, 0, len(ACTIONS) - 1)]
        snd1, snd2 = pc.pin(s1, 0, 2), pc.pin(s2, 0, 2)
        with pc.untraced():
            root = FST(src, 'exec')
            pc.reset_globals()
            n0 = len(list(ast.walk(root.a)))
            wroot = STARTS[start](root)
            allf = [n_.f for n_ in ast.walk(root.a)]               # kept alive for the whole run
            orig = {id(f_): type(f_.a).__name__ for f_ in allf}     # which AST class every FST object stood for before the walk
        sig = f'walk.{key}.{wkw}' + ('' if start == 'root' else f'.from_{start}')
        seen = set()       # ids of nodes yielded on entry (on leave for on='leave') and not since released by a send(True) re-walk
        keep = []          # keep every yielded object alive: otherwise a freed node's id() can be reused by a new node
        first = {}
        n = 0
        expect_children_of = None
        expect_again = []
        with pc.untraced():
            ref_order = [(it_[0] if both else it_) for it_ in wroot.walk(**wkw) if not (both and it_[1])]     # the undisturbed walk: which nodes, in which order
        orig_ast = {id(f_): f_.a for f_ in ref_order}
        yielded = set()
        skip_below = []        # nodes whose descendants are legitimately not walked (send(False))
        no_leave = []          # on='both': nodes whose ENTRY was answered with send(False) are documented not to be yielded on leaving
        act_at = []            # (index in ref_order of the node at which an action happened)
        gen = wroot.walk(**wkw)
        for item in gen:
            g, leaving = (item if both else (item, leave))
            yielded.add(id(g))
            n += 1
            check(n <= 8 * (n0 + 8 * (1 + int(two))), 'walk.does_not_terminate', (key, wkw, act1, act2))
            check(g.a is not None and g.root is root, 'walk.yielded_dead_or_foreign_node', (key, wkw, act1, act2, n))
            with pc.untraced():
                ga = g.a
                check(any(m_ is ga for m_ in ast.walk(root.a)), 'walk.yielded_node_not_reachable_from_root', (key, wkw, act1, act2, type(ga).__name__))
            expect_again = [e for e in expect_again if e is not g]
            if both and leaving and any(g is x_ for x_ in no_leave):
                cover('leave_after_send_false')      # the walk() docstring says such a node is not yielded on leaving; the implementation yields it and search(on='both', nested=False) relies on that: not judged (the property only asks that send(False) stops the recursion)
            if leaving == leave:          # the "first" kind of yield of this walk mode: entry, or leave for on='leave'
                if id(g) in seen:
                    t0_ = orig.get(id(g), first[id(g)][0])
                    how = 'walk.yielded_node_twice_on_leave' if leave else 'walk.yielded_node_twice_on_entry'
                    if first[id(g)][1] is not g.a or t0_ != type(g.a).__name__:      # the same FST object now stands for ANOTHER AST node (a parent collapsed into its remaining child): identify the finding by what collapsed
                        how += f':fst_object_reused:{key}:{t0_}->{type(g.a).__name__}'
                    fail(how, (key, wkw, act1, act2, type(g.a).__name__, n))
                seen.add(id(g))
                first[id(g)] = (type(g.a).__name__, g.a)
                keep.append(g)
            if expect_children_of is not None:
                par, = expect_children_of
                # after replacing the current node (no send(False)) / after send(True) on leave the walk continues INSIDE that node first
                if par.a is not None and list(par.walk(self_=False, **{k_: v_ for k_, v_ in wkw.items() if k_ in ('all',)})):
                    anc = g
                    inside = False
                    while anc is not None:
                        if anc is par:
                            inside = True
                        anc = anc.parent
                    check(inside and (g is not par or both), 'walk.new_children_of_replacement_not_walked_next', (key, wkw, type(g.a).__name__, n))
                expect_children_of = None
            this_k = n - 1
            for (kk, act, snd) in ((k1, act1, snd1),) + (((k2, act2, snd2),) if two else ()):
                if this_k == kk:
                    res = _do(act, g)
                    cover(res + ('.leave' if leaving else '.enter'))
                    with pc.untraced():
                        idx_ = next((i_ for i_, f_ in enumerate(ref_order) if f_ is g), None)
                        if idx_ is not None:
                            act_at.append(idx_)
                    if snd == 1:
                        skip_below.append(g)
                        if both and not leaving:
                            no_leave.append(g)
                    if snd == 1:
                        gen.send(False)
                    elif snd == 2 and not wkw.get('scope'):
                        gen.send(True)
                    alive = g.a is not None and g.root is root
                    if not leaving:
                        if res == 'replaced_self' and snd != 1 and (wkw.get('recurse', True) or snd == 2) and alive:
                            expect_children_of = (g,)
                    elif snd == 2 and not wkw.get('scope'):
                        # documented: send(True) on leaving walks the node's children AGAIN, then yields the node again (for on='both' the
                        # text can be read as "entered again" as well: both readings accepted)
                        if alive:
                            with pc.untraced():
                                for d_ in ast.walk(g.a):
                                    if getattr(d_, 'f', None) is not None:
                                        seen.discard(id(d_.f))
                            if res in ('replaced_self', 'n/a', 'refused', 'none'):
                                expect_children_of = (g,)
                                expect_again.append(g)
        check(not [e for e in expect_again if e.a is not None and e.root is root], 'walk.node_not_yielded_again_after_send_true_on_leave', (key, wkw, act1, act2))
        # "after removing it the walk continues with what follows": every node of the undisturbed walk which comes after the (first) action, is still
        # part of the tree at the end and does not hang below a node for which send(False) was given, must have been yielded
        with pc.untraced():
            if act_at and not leave:
                live = {id(m_.f) for m_ in ast.walk(root.a) if getattr(m_, 'f', None) is not None}
                for f_ in ref_order[min(act_at) + 1:]:
                    if id(f_) in yielded or f_.a is None or id(f_) not in live:
                        continue
                    anc, below = f_.parent, False
                    while anc is not None:
                        if any(anc is sb for sb in skip_below):
                            below = True
                        anc = anc.parent
                    if below:
                        continue
                    if orig.get(id(f_)) != type(f_.a).__name__ or f_.a is not orig_ast[id(f_)]:
                        continue        # the FST object now stands for another AST: a replaced sibling (documented: new nodes are not walked) or re-use by normalisation (listed finding)
                    fail(f'walk.skipped_a_node_which_follows_and_survived:{key}', (key, wkw, act1, act2, type(f_.a).__name__, pc.R(f_.src)[:40] if f_.loc is not None else ''))
        # final tree: C01
        with pc.untraced():
            pc.o_parse(root, sig + '.final')
            pc.links_ok(root, sig + '.final')
        cover('done')
    return fn


SEARCH_SRC = 'x = [a, f(a, [a]), b]\ny = a + g(a)\n'


def p2_search_mutate(k: int, act: int):
    """consumer of search(): replace / remove matches while iterating"""
    from fst.match import MName
    assume(0 <= act <= 2 and 0 <= k <= 8)
    a_ = pc.pin(act, 0, 2)
    with pc.untraced():
        root = FST(SEARCH_SRC, 'exec')
        pc.reset_globals()
    n = 0
    seen = set()
    keep = []
    for m in root.search(MName(id='a')):
        g = m.matched
        check(g.a is not None and g.root is root, 'search.yielded_dead_node', (n,))
        with pc.untraced():
            ga = g.a
            check(any(m_ is ga for m_ in ast.walk(root.a)), 'search.yielded_node_not_reachable_from_root', (n,))
        check(id(g) not in seen, 'search.yielded_node_twice')
        seen.add(id(g))
        keep.append(g)
        if n == k:
            try:
                with FST.options(**pc.OPTS):
                    if a_ == 0:
                        g.replace('(z, a)')          # replacement CONTAINS a new match: must not loop forever
                    elif a_ == 1 and g.parent is not None and g.pfield.idx is not None:
                        g.remove()
                    elif a_ == 2 and g.parent is not None and g.parent.parent is not None and g.parent.pfield.idx is not None:
                        g.parent.remove()
            except pc.EXPECTED_RAISES:
                cover('refused')
        n += 1
        check(n <= 60, 'search.does_not_terminate')
    with pc.untraced():
        pc.o_parse(root, 'search.final')
    cover('done')


FNW = ['fst.fst_traverse.walk', 'fst.fst_core._unmake_fst_tree', 'fst.fst_core._set_ast', 'fst.fst_put_one._put_one', 'fst.fst_put_slice._put_slice']
CELLS = []
_QW = {('walrus', 6), ('walrus', 0), ('lists', 0), ('lists', 1), ('lists', 3), ('lists', 4), ('block', 0), ('block', 3), ('block', 4), ('mixed', 0), ('mixed', 6), ('nonefirst', 0), ('nonefirst', 2), ('boolops', 0), ('boolops', 3), ('comps', 6), ('comps', 0)}
for _k in SRCS:
    for _wi, _w in enumerate(WALKS):
        if _w.get('scope') and _k not in ('mixed', 'comps', 'walrus'):
            continue
        CELLS.append(Cell(f'P1.walk[{_k},{_w or "default"}]', _mk_walk(_k, _wi, False), 'P', FNW,
                          f'carrier {_k}; walk({_w}); ONE mutation event: yield ordinal k over 0..60 (entry AND leave yields), {len(ACTIONS)} actions, send in {{none, False, True}} (all symbolic)',
                          tier='quick' if (_k, _wi) in _QW else 'thorough', budget=900, per_path=60,
                          out='cut during walk (documented unsupported); raw edits during walk (documented lossy); >= 3 events', reset=pc.reset_globals))
    for _wi in (0, 1):
        CELLS.append(Cell(f'P1.walk2[{_k},{WALKS[_wi] or "default"}]', _mk_walk(_k, _wi, True), 'P', FNW,
                          f'carrier {_k}; walk({WALKS[_wi]}); TWO mutation events at k1 < k2, each any of {len(ACTIONS)} actions and 3 send values (symbolic)',
                          tier='thorough', budget=900, per_path=60, reset=pc.reset_globals))
for _k, _st, _wi in (('walrus', 'stmt0', 6), ('lists', 'value0', 0), ('lists', 'value0', 4), ('lists', 'value0', 3), ('calls', 'value0', 4), ('comps', 'stmt0', 6), ('comps', 'stmt0', 0), ('mixed', 'stmt0', 3), ('boolops', 'value0', 4)):
    CELLS.append(Cell(f'P1.walk[{_k},{WALKS[_wi] or "default"},from={_st}]', _mk_walk(_k, _wi, False, _st), 'P', FNW,
                      f'carrier {_k}; walk({WALKS[_wi]}) started at a NON-root node ({_st}), so the walk root itself can be replaced / removed when yielded; one mutation event as above',
                      tier='quick' if (_k, _wi) in (('lists', 4), ('comps', 6), ('lists', 0), ('walrus', 6)) else 'thorough', budget=900, per_path=60, reset=pc.reset_globals))
CELLS.append(Cell('P2.search_mutate', p2_search_mutate, 'P', FNW + ['fst.match.search'], 'search(MName(a)) with replace (containing a new match) / remove / remove parent at a symbolic match ordinal',
                  budget=600, per_path=60, reset=pc.reset_globals))
