"""C10 — raw source edits are equivalent to re-parsing the whole file, or change nothing.

P1: put_src(text, ln, col, end_ln, end_col, 'reparse') on carriers with the rectangle SYMBOLIC over Z^4 (negative, out of range,
    on and off node boundaries, spanning statements and blocks) and a table of replacement texts. Leaf oracle (no pfst code):
    S' = independent splice of the clipped rectangle. If CPython parses S': the call must return, root.src == S', the tree must
    equal ast.parse(S') incl. every position, root object identical. Otherwise the call must raise and source + tree are unchanged.
P2: the same through raw-mode node puts (replace(..., raw=True)) on a symbolic node ordinal, and reparse().
"""
import ast

from engine.h import Cell, assume, check, cover, fail
from harness import pcommon as pc

from fst import FST, fst_core

PROPERTY = 'C10'
THOROUGH_SCALE = 2.0
THOROUGH_STRIDE = 5        # thorough tier = all quick cells + every 5th thorough-only cell (sized to run end-to-end; '--cells' reaches the others)

CARRIERS = {
    'ifblock': 'if a:\n    x = f(1)  # c\n    y = 2\nz = 3\n',
    'elif': 'if a:\n    p\nelif b:\n    q\nelse:\n    r\n',
    'semi': 'a = 1; b = 2\nc = 3\n',
    'semi_multi': 'x = [1,\n     2]; y = 3\nz = 4\n',
    'whileelse': 'while a:\n    pass\nelse:\n    pass\nif a + b:\n    c\n',
    'tailcmt': 'if a:\n x=1+2\nelse:\n for i in j:\n  y=3+4\n',
    'tryexc': 'try:\n    a\nexcept E as e:\n    b\nfinally:\n    c\n',
    'def': 'def f(a, b=1):\n    """d"""\n    return a\nx = f(1)\n',
    'uni': 'é = "ñ"; y = é\nif é:\n    z = "𝒳"  # ç\n',
    'uni2': 'f(д);g(a,\n  b)\nif д: h(c,\n  d)\n',
    'match': 'match v:\n    case 1:\n        a\n    case _:\n        b\n',
    'with': 'with a as b:\n    for i in c:\n        d\n    else:\n        e\n',
    'cls': '@d\nclass C(B):\n    x = 1\n\n    def m(self): pass\n',
}
TEXTS = ['', ' ', 'w', '\n', '    ', 'if q:', 'pass\n', ')', 'u = 0\n    ', '# k', 'é', ':\n        ', 'with', 'while', '*', 'pass\nelse:\n    z', 'a: pass #']

MAXCOL = 16


def ref_clip(lines, ln, col, end_ln, end_col):
    """documented clipping (get_src/put_src docstring) -> (ln, col, end_ln, end_col) or None when the end precedes the start"""
    n = len(lines)
    if ln < 0:
        ln += n
    if end_ln < 0:
        end_ln += n
    if ln > end_ln:
        return None
    ln = max(0, min(n - 1, ln))
    end_ln = max(0, min(n - 1, end_ln))
    ll, lel = len(lines[ln]), len(lines[end_ln])
    col = max(0, col + ll) if col < 0 else min(col, ll)
    end_col = max(0, end_col + lel) if end_col < 0 else min(end_col, lel)
    if ln == end_ln and col > end_col:
        return None
    return ln, col, end_ln, end_col


def _mk_putsrc(key, ti, part):
    src = CARRIERS[key]
    text = TEXTS[ti]
    lines0 = src.split('\n')
    NL = len(lines0)

    def fn(ln: int, col: int, end_ln: int, end_col: int):
        # symbolic over all of Z; the reference clips, then the clipped values are pinned (finite after clipping)
        r = ref_clip(lines0, ln, col, end_ln, end_col)
        if part == 'reversed':
            assume(r is None)
        else:
            assume(r is not None and r[0] == part[0] and r[2] == part[1])     # this cell: rectangles which clip to these two lines
        with pc.untraced():
            root = FST(src, 'exec')
            pc.reset_globals()
            dump0 = ast.dump(root.a, include_attributes=True)
        sig = f'put_src.{key}.{text!r}'
        if r is None:
            try:
                root.put_src(text, ln, col, end_ln, end_col)
            except IndexError:
                cover('raise.index')
                return
            except pc.EXPECTED_RAISES as e:
                fail('put_src.wrong_exception_for_reversed_rectangle', (key, text, type(e).__name__))
            fail('put_src.reversed_rectangle_accepted', (key, text))
        l0, c0, l1, c1 = pc.pin(r[0], 0, NL - 1), pc.pin(r[1], 0, MAXCOL + 8), pc.pin(r[2], 0, NL - 1), pc.pin(r[3], 0, MAXCOL + 8)
        with pc.untraced():
            s2 = '\n'.join(lines0[:l0] + [lines0[l0][:c0] + text + lines0[l1][c1:]] + lines0[l1 + 1:])
            try:
                t2 = ast.parse(s2)
                ok = True
            except (SyntaxError, ValueError):
                ok = False
        where = f'{key}:{text!r}@({l0},{c0},{l1},{c1})'
        try:
            ret = root.put_src(text, ln, col, end_ln, end_col)
        except pc.EXPECTED_RAISES + (AssertionError, AttributeError, TypeError, KeyError) as e:
            with pc.untraced():
                if ok:
                    fail('put_src.valid_source_refused:' + where, (s2, type(e).__name__, str(e)[:200]))
                check(root.src == src, 'put_src.src_changed_by_failed_reparse:' + where, (root.src,))
                pc.realize_tree(root.a)
                d = ast.dump(root.a, include_attributes=True)
                check(d == dump0, 'put_src.tree_changed_by_failed_reparse:' + where, pc._first_diff(dump0, d))
                check(not fst_core._MODIFYING, 'put_src.modification_lock_leaked:' + where)
            cover('raise.invalid')
            return
        with pc.untraced():
            if not ok:
                fail('put_src.invalid_source_accepted:' + where, (s2, pc.R(root.src)))
            got = pc.R(root.src)
            check(got == s2, 'put_src.source_is_not_the_requested_splice:' + where, (got, s2))
            pc.realize_tree(root.a)
            d1 = ast.dump(root.a, include_attributes=True)
            d2 = ast.dump(t2, include_attributes=True)
            if d1 != d2:
                if ast.dump(root.a) != ast.dump(t2):
                    fail('put_src.tree_differs_from_full_reparse:' + where, (s2, pc._first_diff(ast.dump(t2), ast.dump(root.a))))
                fail('put_src.positions_differ_from_full_reparse:' + where, (s2, pc._first_diff(d2, d1)))
            pc.links_ok(root, 'put_src.links:' + where)
            # returned end position of the put text
            tl = text.split('\n')
            exp_end = (l0, c0 + len(tl[0])) if len(tl) == 1 else (l0 + len(tl) - 1, len(tl[-1]))
            check(tuple(pc.R(ret)) == exp_end, 'put_src.returned_end_wrong:' + where, (pc.R(ret), exp_end))
        cover('ok')
    return fn


REPL = ['w', 'w + 1', 'pass', 'if q: pass', 'w = 0; v = 1', '', 'x, y', '(w\n)', '@', 'lambda: 0']


def _mk_rawput(key):
    src = CARRIERS[key]

    def fn(k: int, ri: int):
        assume(0 <= ri < len(REPL))
        code = REPL[pc.pin(ri, 0, len(REPL) - 1)]
        with pc.untraced():
            root = FST(src, 'exec')
            pc.reset_globals()
            nodes = [n for n in ast.walk(root.a) if n is not root.a and n.f.loc is not None]
            dump0 = ast.dump(root.a, include_attributes=True)
        assume(0 <= k < len(nodes))
        node = nodes[pc.pin(k, 0, len(nodes) - 1)].f
        with pc.untraced():
            l0, c0, l1, c1 = node.pars() if isinstance(node.a, (ast.expr, ast.pattern)) and node.pars() is not None else node.loc
            lines0 = src.split('\n')
        where = f'{key}:raw_replace[{type(node.a).__name__}@{l0},{c0}]<-{code!r}'
        try:
            node.replace(code, raw=True)
        except pc.EXPECTED_RAISES + (AssertionError, AttributeError, TypeError, KeyError):
            with pc.untraced():
                check(root.src == src, 'raw_replace.src_changed_by_failed_edit:' + where, (root.src,))
                pc.realize_tree(root.a)
                d = ast.dump(root.a, include_attributes=True)
                check(d == dump0, 'raw_replace.tree_changed_by_failed_edit:' + where, pc._first_diff(dump0, d))
                check(not fst_core._MODIFYING, 'raw_replace.modification_lock_leaked:' + where)
            cover('raise')
            return
        with pc.untraced():
            got = pc.R(root.src)
            try:
                t2 = ast.parse(got)
            except SyntaxError as e:
                fail('raw_replace.result_unparsable:' + where, (got, str(e)))
            pc.realize_tree(root.a)
            d1 = ast.dump(root.a, include_attributes=True)
            d2 = ast.dump(t2, include_attributes=True)
            if d1 != d2:
                if ast.dump(root.a) != ast.dump(t2):
                    fail('raw_replace.tree_differs_from_full_reparse:' + where, (got, pc._first_diff(ast.dump(t2), ast.dump(root.a))))
                fail('raw_replace.positions_differ_from_full_reparse:' + where, (got, pc._first_diff(d2, d1)))
            pc.links_ok(root, 'raw_replace.links:' + where)
        cover('ok')
    return fn


FNR = ['fst.fst.FST.put_src', 'fst.fst_raw._reparse_raw', 'fst.fst_raw._reparse_raw_stmtlike', 'fst.fst_raw._reparse_raw_base', 'fst.fst_misc.clip_src_loc',
       'fst.fst.FST.find_contains_loc', 'fst.fst_core._put_src', 'fst.fst_core._offset', 'fst.fst_core._set_ast']
CELLS = []
_Q = {('semi', 3), ('uni2', 2), ('whileelse', 12), ('tailcmt', 9)}
for _k in CARRIERS:
    _nl = len(CARRIERS[_k].split('\n'))
    for _ti in range(len(TEXTS)):
        if (_k, _ti) not in _Q and not (TEXTS[_ti] in ('', ' ', '\n', 'if q:', 'pass\n', '# k', 'u = 0\n    ') and _k in ('ifblock', 'elif', 'semi', 'semi_multi', 'tryexc', 'uni', 'uni2', 'match')
                                        or TEXTS[_ti] in ('', '\n') and _k in ('cls', 'with', 'def')):
            if (_k, _ti) not in (('semi_multi', 5), ('tryexc', 14), ('whileelse', 13), ('whileelse', 16), ('elif', 13), ('elif', 12), ('tryexc', 15), ('match', 16), ('def', 15)):
                continue      # sized out of the thorough tier (all 108 carrier x text pairs were swept concretely at build time: 115,464 rectangles, see DESIGN.md)
        _parts = ['reversed'] + [(a_, b_) for a_ in range(_nl) for b_ in range(a_, _nl)]
        for _p in _parts:
            CELLS.append(Cell(f'P1.put_src[{_k},{TEXTS[_ti]!r},lines={_p if _p == "reversed" else str(_p[0]) + "-" + str(_p[1])}]', _mk_putsrc(_k, _ti, _p), 'P', FNR,
                              f'carrier {_k!r}; replacement text {TEXTS[_ti]!r}; rectangle (ln, col, end_ln, end_col) symbolic over all of Z^4 restricted to those that '
                              + ('are reversed (end before start)' if _p == 'reversed' else f'clip to lines {_p[0]}..{_p[1]}'),
                              tier='quick' if (_k, _ti) in _Q and (_nl < 5 or _p == 'reversed' or _p[1] - _p[0] <= 1) and (_k != 'tailcmt' or _p in ('reversed', (1, 1), (3, 4), (4, 4))) else 'thorough', budget=900, per_path=60,
                              out="other programs / texts; reparse() with changed parse parameters; 'end' coordinates (C03-K1 covers their clipping)", reset=pc.reset_globals))
for _k in CARRIERS:
    CELLS.append(Cell(f'P2.raw_replace[{_k}]', _mk_rawput(_k), 'P', FNR + ['fst.fst_put_one._put_one'],
                      f'carrier {_k!r}; node.replace(code, raw=True) for every positioned node (symbolic ordinal) x {len(REPL)} codes (finite choice, solver-enumerated)',
                      tier='quick' if _k in ('ifblock', 'uni') else 'thorough', budget=900, per_path=60, reset=pc.reset_globals))


# ---------------------------------------------------------------------------------------------------------------- P3
# trees whose root is NOT a module (expression / single statement / pattern roots): the new whole source must be valid for the root's kind
ROOTS = {
    'list_expr': ('[a + b, c]', 'expr', ['x, y', 'x', '', ']', 'x = 1', '(z\n)', '# k']),
    'call_expr': ('f(a, k=b)  # c', 'expr', ['x, y', '*q', '', ')', 'lambda: 0', 'u=1']),
    'assign_stmt': ('x = (1,\n     2)', 'stmt', ['1; y = 2', 'z', '', 'if q: pass', '3\nw = 4', 'del']),
    'seq_pattern': ('[a, *b]', 'pattern', ['x, y', '1', '', '|', '{"k": v}', 'z = 1']),
}
def _has_code(s_):
    t_ = pc.tokens(s_)
    return t_ is None or bool([t for t in t_ if t[0] != 'COMMENT'])


_ROOT_PARSE = {'expr': lambda s_: ast.parse('(' + s_ + '\n)', mode='eval').body if _has_code(s_) else (_ for _ in ()).throw(SyntaxError('empty')),
               'stmt': lambda s_: (lambda t: t.body[0] if len(t.body) == 1 else (_ for _ in ()).throw(SyntaxError('not one statement')))(ast.parse(s_)),
               'pattern': lambda s_: ast.parse('match _z:\n case ' + s_ + ': pass').body[0].cases[0].pattern if '\n' not in s_ and s_.strip() else (_ for _ in ()).throw(SyntaxError('x'))}


def _mk_rootedit(key, ti):
    src, mode, texts = ROOTS[key]
    lines0 = src.split('\n')
    text = texts[ti]
    MC = max(len(l_) for l_ in lines0) + 1

    def fn(ln: int, col: int, end_ln: int, end_col: int):
        r = ref_clip(lines0, ln, col, end_ln, end_col)
        assume(r is not None)
        l0, c0, l1, c1 = pc.pin(r[0], 0, len(lines0) - 1), pc.pin(r[1], 0, MC), pc.pin(r[2], 0, len(lines0) - 1), pc.pin(r[3], 0, MC)
        with pc.untraced():
            root = FST(src, mode)
            pc.reset_globals()
            dump0 = ast.dump(root.a, include_attributes=True)
            kind0 = type(root.a).__mro__[1].__name__ if mode != 'stmt' else 'stmt'
            s2 = '\n'.join(lines0[:l0] + [lines0[l0][:c0] + text + lines0[l1][c1:]] + lines0[l1 + 1:])
            try:
                t2 = _ROOT_PARSE[mode](s2)
                ok = True
            except (SyntaxError, ValueError, IndexError):
                t2, ok = None, False
        where = f'{key}:{text!r}@({l0},{c0},{l1},{c1})'
        try:
            root.put_src(text, ln, col, end_ln, end_col)
        except pc.EXPECTED_RAISES + (AssertionError, AttributeError, TypeError, KeyError):
            with pc.untraced():
                check(root.src == src, 'root_put_src.src_changed_by_failed_reparse:' + where, (root.src,))
                pc.realize_tree(root.a)
                check(ast.dump(root.a, include_attributes=True) == dump0, 'root_put_src.tree_changed_by_failed_reparse:' + where)
            cover('raise')
            return
        with pc.untraced():
            got = pc.R(root.src)
            check(got == s2, 'root_put_src.source_is_not_the_requested_splice:' + where, (got, s2))
            if not ok:
                fail('root_put_src.source_invalid_for_the_root_kind_accepted:' + key + ':' + repr(text), (s2, type(root.a).__name__))
            pc.realize_tree(root.a)
            check(ast.dump(root.a) == ast.dump(t2), 'root_put_src.tree_differs_from_parse_of_new_source:' + where, (s2, ast.dump(root.a)[:200], ast.dump(t2)[:200]))
            pc.links_ok(root, 'root_put_src.links:' + where)
        cover('ok')
    return fn


for _k in ROOTS:
    for _ti, _tx in enumerate(ROOTS[_k][2]):
        CELLS.append(Cell(f'P3.root_put_src[{_k},{_tx!r}]', _mk_rootedit(_k, _ti), 'P', FNR,
                          f'root {ROOTS[_k][0]!r} parsed in mode {ROOTS[_k][1]!r} (not a module); rectangle symbolic over Z^4, replacement text {_tx!r}: the call succeeds exactly when the new whole source is valid '
                          'for the root\'s kind (judged by CPython inside the construct that holds such a fragment), tree == that parse, otherwise nothing changes',
                          tier='quick' if (_k, _ti) in (('list_expr', 0), ('assign_stmt', 0)) else 'thorough', budget=600, per_path=60, reset=pc.reset_globals))
