"""C08 — putting back what was taken restores the tree; accessors read back writes.

K1: repr_str_multiline: for strings of symbolic characters over the alphabet that drives its decisions (both quote kinds,
    backslash, newline, tab, NUL, U+2028, a letter, a 2-byte and a 4-byte character) the produced literal, decoded by an
    independent triple-quoted-literal decoder, is the input, and the closing quotes never occur early.
T1: line-comment accessor with re-lettered ARGUMENT text: get_line_comment() after put_line_comment(text) is text for every
    code point >= U+0080 at the marked positions; statement tokens unchanged; following positions shifted correctly.
P1: round trips on carriers with symbolic (start, stop): cut then put back at the same place; replace each element by its
    own copy / own pure AST / own source; repeated up to 2 times: whole-tree structure equals the original.
P2: docstring accessors on a table of nasty texts x every def/class/module (finite choice): get_docstr() reads back the text,
    ast value equals what the source denotes (O-parse).
P3: own_src() of every node parses (CPython) to that node's structure.
"""
import ast

from engine import symbistr  # noqa: F401
from engine.h import Cell, assume, check, cover, fail, okcp
from harness import pcommon as pc
from harness import tletter

from fst import FST
from fst.astutil import repr_str_multiline

PROPERTY = 'C08'


def _undoc_tree(dump):
    """docstring-like statements (multi-line str expression statements) compare up to the documented re-indentation of their continuation
    lines: a copy dedents them, and an own copy / own pure AST / own source put back carries that indentation"""
    import re
    def fix(m):
        v = ast.literal_eval(m.group(1))
        return 'Expr(value=Constant(value=' + repr('\n'.join(l.lstrip() for l in v.split('\n'))) + '))'
    return re.sub(r"Expr\(value=Constant\(value=('(?:[^'\\]|\\.)*'|\"(?:[^\"\\]|\\.)*\")\)\)", fix, dump)

THOROUGH_SCALE = 2.0

ALPHA = [34, 39, 92, 10, 9, 0, 0x2028, 97, 0xE9, 0x1F600]


def decode_triple(lit):
    """independent decoder of a triple-quoted str literal (no prefix). -> (ok, value)"""
    if len(lit) < 6:
        return False, 'too short'
    q = lit[0]
    if q not in '"\'' or lit[:3] != q * 3 or lit[-3:] != q * 3:
        return False, 'not triple quoted'
    body = lit[3:-3]
    out = ''
    i = 0
    n = len(body)
    while i < n:
        ch = body[i]
        if ch == '\\':
            if i + 1 >= n:
                return False, 'dangling backslash'
            e = body[i + 1]
            if e == '\\' or e == "'" or e == '"':
                out = out + e
                i += 2
            elif e == 'n':
                out = out + '\n'
                i += 2
            elif e == 't':
                out = out + '\t'
                i += 2
            elif e == 'x':
                out = out + chr(int(body[i + 2:i + 4], 16))
                i += 4
            elif e == 'u':
                out = out + chr(int(body[i + 2:i + 6], 16))
                i += 6
            elif e == 'U':
                out = out + chr(int(body[i + 2:i + 10], 16))
                i += 10
            else:
                return False, 'unknown escape'
        else:
            if ch == q and body[i:i + 3] == q * 3:
                return False, 'closing quotes occur early'
            out = out + ch
            i += 1
    # the literal's last body character must not merge with the closing quotes into a longer run that ends the string early
    if n and body[-1] == q and (n < 2 or body[-2] != '\\'):
        return False, 'body ends with an unescaped quote'
    return True, out


def _mk_repr(n):
    def k1(x0: int, x1: int, x2: int, x3: int):
        xs = [x0, x1, x2, x3][:n]
        for x in [x0, x1, x2, x3][n:]:
            assume(x == 97)
        s = ''
        for x in xs:
            assume(x == 34 or x == 39 or x == 92 or x == 10 or x == 9 or x == 0 or x == 0x2028 or x == 97 or x == 0xE9 or x == 0x1F600)
            s = s + chr(x)
        lit = repr_str_multiline(s)
        ok, val = decode_triple(lit)
        check(ok, 'repr_str_multiline.literal_malformed', (val,))
        check(val == s, 'repr_str_multiline.does_not_read_back')
        if not pc.in_sym():
            check(ast.literal_eval(lit) == s, 'repr_str_multiline.cpython_reads_something_else', (lit, s))
        cover('ok')
    return k1


# ---------------------------------------------------------------------------------------------------------------- T1
def _s_put_comment(f, T):
    f.body[0].put_line_comment(T('n¢w "£'))


def _s_put_comment_blk(f, T):
    f.body[0].body[0].put_line_comment(T('¢ longer than before £'))
    f.body[0].put_line_comment(T('h¤'))


def _q_comments(f):
    out = []
    for n in ast.walk(f.a):
        if isinstance(n, ast.stmt):
            out.append((f'{type(n).__name__}@{n.lineno}', n.f.get_line_comment() or ''))
    return out


# ---------------------------------------------------------------------------------------------------------------- P1
def _mk_roundtrip(cid, form):
    c = pc.CARRIER[cid]

    def fn(a: int, b: int, rep: int):
        assume(1 <= rep <= 2)
        reps = pc.pin(rep, 1, 2)
        x = pc.Ctx(c)
        sig = f'{cid}.roundtrip.{form}'
        with pc.untraced():
            struct0 = ast.dump(ast.parse(c.src))
        for _ in range(reps):
            if form == 'cut_put':
                s, e = pc.ref_slice(x.n, a, b)
                assume(s <= e)
                try:
                    with FST.options(**pc.OPTS):
                        piece = x.cont.get_slice(a, b, c.field, cut=True)
                except pc.EXPECTED_RAISES:
                    cover('cut.raise')
                    return
                with pc.untraced():
                    try:
                        x.cont = c.locate(x.root)
                    except (AttributeError, IndexError):
                        cover('container_collapsed')
                        return
                try:
                    with FST.options(**pc.OPTS):
                        x.cont.put_slice(piece, s, s, c.field)
                except pc.EXPECTED_RAISES as ex:
                    if c.refuse_re and __import__('re').search(c.refuse_re, str(ex)):
                        cover('put_back.documented_refusal')
                        return
                    fail(sig + '.cannot_put_back_what_was_cut', (pc.R(x.root.src), type(ex).__name__, str(ex)[:200]))
            else:
                i = pc.ref_index(x.n, a)
                assume(i is not None and b == 0)
                with pc.untraced():
                    elt = pc.view_of(x.cont, c.field)[i]
                assume(isinstance(elt, FST))
                if form == 'own_copy':
                    code = elt.copy()
                elif form == 'own_ast':
                    code = elt.copy().a
                elif form == 'own_pure_ast':
                    from harness.c19 import pure
                    with pc.untraced():
                        code = pure(elt.a)       # the node's OWN AST without positions or links (values exactly as they are in the tree)
                else:
                    code = elt.own_src()
                try:
                    with FST.options(**pc.OPTS):
                        elt.replace(code)
                except pc.EXPECTED_RAISES as ex:
                    fail(sig + '.cannot_replace_node_by_itself', (type(elt.a).__name__, type(ex).__name__, str(ex)[:200]))
            with pc.untraced():
                t = pc.o_parse(x.root, sig)
                if form == 'own_pure_ast':
                    check(ast.dump(t) == struct0, sig + '.structure_changed_exactly', (pc.R(x.root.src),))      # nothing was copied with re-indentation here: values must come back exactly
                check(_undoc_tree(ast.dump(t)) == _undoc_tree(struct0), sig + '.structure_changed', (pc.R(x.root.src),))
                try:
                    x.cont = c.locate(x.root)
                except (AttributeError, IndexError):
                    fail(sig + '.container_gone')
        cover('ok')
    return fn


# ---------------------------------------------------------------------------------------------------------------- P2
DOC_SRC = 'def f(a):\n    """Old\n    doc."""\n    return a\nclass K:\n    x = 1\n    def m(self): pass\n'
TEXTS = ['plain', 'two\nlines', 'ends with quote"', "ends with apostrophe'", 'both """ and \'\'\' inside', 'back\\slash', 'trailing backslash\\', 'tab\tand nul\x00',
         'unicode é 𝒳 \u2028 sep', 'indented\n    second line\n  third', '', 'a' * 100, '"', '""', '"""', "'''\"", '\\"""', 'line\n\nblank between', '\\N{dash} \\x41 stays raw',
         'ends with newline\n', '{braces} %s', "it's", 'r"raw"', '\x7f\x1b[0m', 'Ünï\ncødé']


def p2_docstr(k: int, ti: int, reput: bool):
    assume(0 <= ti < len(TEXTS))
    text = TEXTS[pc.pin(ti, 0, len(TEXTS) - 1)]
    with pc.untraced():
        root = FST(DOC_SRC, 'exec')
        pc.reset_globals()
        targets = [n.f for n in ast.walk(root.a) if isinstance(n, (ast.FunctionDef, ast.ClassDef, ast.Module))]
    assume(0 <= k < len(targets))
    tgt = targets[pc.pin(k, 0, len(targets) - 1)]
    sig = f'docstr.{type(tgt.a).__name__}'
    try:
        tgt.put_docstr(text, reput)
    except pc.EXPECTED_RAISES as ex:
        fail('docstr.put_refused', (type(tgt.a).__name__, text, type(ex).__name__, str(ex)[:200]))
    with pc.untraced():
        t = pc.o_parse(root, sig)          # AST values equal what the new source denotes, positions included
        got = tgt.get_docstr()
        first = text.split('\n')[0]
        if not first[:1].isspace():
            check(got == text, 'docstr.does_not_read_back', (type(tgt.a).__name__, text, got, pc.R(root.src)))
        # and CPython sees the same docstring (modulo its own indentation cleaning)
        import inspect
        node = t if isinstance(tgt.a, ast.Module) else [n for n in ast.walk(t) if type(n) is type(tgt.a) and getattr(n, 'name', None) == getattr(tgt.a, 'name', None)][0]
        cp = ast.get_docstring(node, clean=True)
        check((cp or '').rstrip() == inspect.cleandoc(text).rstrip(), 'docstr.cpython_docstring_differs', (text, cp))   # rstrip: the closing quotes' indentation is part of the value
    # delete again: back to a tree without docstring, still C01
    tgt.put_docstr(None)
    with pc.untraced():
        pc.o_parse(root, sig + '.deleted')
        check(tgt.get_docstr() is None, 'docstr.not_deleted')
    cover('ok')


# ---------------------------------------------------------------------------------------------------------------- P3
OWN_SRC = ('class C(B):\n    """Doc\n    two."""\n    x = [a,  # c\n         (b)]\n    def m(self, p=1):\n        if p:\n            return p if p else (yield)\n        elif x:\n            pass\n'
           '        else:\n            y = f"{p!r:>4}"\n    @d\n    async def n(self): await z\n')


def p3_own_src(k: int, order: int):
    with pc.untraced():
        root = FST(OWN_SRC, 'exec')
        pc.reset_globals()
        nodes = [n for n in ast.walk(root.a) if isinstance(n, (ast.stmt, ast.expr)) and not isinstance(n, ast.Slice)]
    assume(0 <= k < len(nodes))
    node = nodes[pc.pin(k, 0, len(nodes) - 1)]
    in_fstr = False
    p = node.f
    while p is not None:
        if isinstance(p.a, (ast.JoinedStr, ast.FormattedValue)) and p.a is not node:
            in_fstr = True
        p = p.parent
    assume(not in_fstr)         # documented: pieces of f-strings give unparsable own source
    assume(0 <= order <= 5)
    perm = [(None, False, True), (None, True, False), (False, None, True), (False, True, None), (True, None, False), (True, False, None)][pc.pin(order, 0, 5)]
    answers = {}
    for dv in perm:             # the docstr variants of own_src() are cached per node: asked in every order
        answers[dv] = node.f.own_src() if dv is None else node.f.own_src(docstr=dv)
    with pc.untraced():
        fresh_nodes = [n for n in ast.walk(FST(OWN_SRC, 'exec').a) if isinstance(n, (ast.stmt, ast.expr)) and not isinstance(n, ast.Slice)]
        for dv in (None, False, True):
            fn_ = [n for n in ast.walk(FST(OWN_SRC, 'exec').a) if isinstance(n, (ast.stmt, ast.expr)) and not isinstance(n, ast.Slice)][nodes.index(node)].f
            exp_ = fn_.own_src() if dv is None else fn_.own_src(docstr=dv)
            check(pc.R(answers[dv]) == exp_, 'own_src.answer_depends_on_which_docstr_variant_was_asked_first', (type(node).__name__, dv, perm))
        # docstr=False leaves string statements alone: that variant must parse back to the node EXACTLY
        exact = pc.R(answers[False])
        try:
            te = ast.parse(exact).body[0] if isinstance(node, ast.stmt) else ast.parse('(' + exact + '\n)', mode='eval').body
            import re as _re
            unctx = lambda d_: _re.sub(r"ctx=(Store|Del)\(\)", 'ctx=Load()', d_)   # noqa: E731
            check(unctx(ast.dump(te)) == unctx(ast.dump(node)) or isinstance(node, ast.If), 'own_src.docstr_false_variant_does_not_parse_back_to_the_node', (type(node).__name__, exact))
        except (SyntaxError, IndexError):
            pass
    own = answers[None]
    with pc.untraced():
        own = pc.R(own)
        try:
            if isinstance(node, ast.stmt):
                t = ast.parse(own).body[0]
            else:
                t = ast.parse('(' + own + '\n)', mode='eval').body
        except (SyntaxError, IndexError) as ex:
            fail('own_src.does_not_parse', (type(node).__name__, own, str(ex)))
        a, b = ast.dump(t), ast.dump(node)
        if a != b:
            # documented: docstrings are re-indented, elif becomes if, Store/Del contexts become Load when parsed as an expression
            def norm(d):
                import re
                return re.sub(r"ctx=(Store|Del)\(\)", 'ctx=Load()', re.sub(r"Constant\(value='[^']*'\)", 'Constant(str)', d))
            check(norm(a) == norm(b), 'own_src.parses_to_another_structure', (type(node).__name__, own))
    cover('ok')


NEST_SRC = 'class K:\n    def f(self):\n        if a:\n            pass  # c\nx = 2\ntry:\n    y = 1\nexcept E:\n    z = 3  # cz\n'


def p4_comment_then_cutput(q: int, k: int, anc: int, ti: int):
    """[queries on all nodes] -> put_line_comment(text) -> read back -> own_src of an ancestor shows it -> cut that ancestor and put it back: structure as before"""
    from harness.c02 import QKINDS, prequery
    TX = ['note that is longer', 'n', 'same']
    assume(0 <= q < len(QKINDS) and 0 <= ti <= 2 and 0 <= anc <= 3)
    qk = QKINDS[pc.pin(q, 0, len(QKINDS) - 1)]
    text = TX[pc.pin(ti, 0, 2)]
    with pc.untraced():
        root = FST(NEST_SRC, 'exec')
        pc.reset_globals()
        stmts = [n.f for n in ast.walk(root.a) if isinstance(n, ast.stmt)]
        struct0 = ast.dump(ast.parse(NEST_SRC))
    prequery(root, qk)
    assume(0 <= k < len(stmts))
    tgt = stmts[pc.pin(k, 0, len(stmts) - 1)]
    try:
        tgt.put_line_comment(text)
    except pc.EXPECTED_RAISES:
        cover('refused')
        return
    got = tgt.get_line_comment()
    with pc.untraced():
        check(pc.R(got) == text, 'line_comment.does_not_read_back', (type(tgt.a).__name__, text, pc.R(got)))
        pc.o_parse(root, 'line_comment.after_put')
    a_ = tgt
    for _ in range(pc.pin(anc, 0, 3)):
        if a_.parent is not None and a_.parent.parent is not None:
            a_ = a_.parent
    own = a_.own_src()
    with pc.untraced():
        # an enclosing block whose last line is the statement's line includes that line's comment in its own source
        if a_ is not tgt and pc.R(a_.bloc[2]) == pc.R(tgt.bloc[2]) and isinstance(tgt.a, ast.stmt) and not hasattr(tgt.a, 'body'):
            check(('# ' + text) in pc.R(own), 'line_comment.ancestor_own_src_lacks_the_comment', (type(a_.a).__name__, text, pc.R(own)))
    if a_.pfield is not None and a_.pfield.idx is not None and isinstance(a_.a, ast.stmt):
        par, fld, idx = a_.parent, a_.pfield.name, a_.pfield.idx
        try:
            with FST.options(**pc.OPTS):
                piece = par.get_slice(idx, idx + 1, fld, cut=True)
                par.put_slice(piece, idx, idx, fld)
        except pc.EXPECTED_RAISES:
            cover('cutput.refused')
            return
        with pc.untraced():
            t = pc.o_parse(root, 'line_comment.after_cut_put_back')
            check(ast.dump(t) == struct0, 'line_comment.cut_put_back_changed_structure', (pc.R(root.src),))
    cover('ok')


FN8 = ['fst.astutil.repr_str_multiline', 'fst.astutil._escape_char']
# ---------------------------------------------------------------------------------------------------------------- P5
CMT_SRC = 'if c:  # h\n    x = 1  # old\n    y = 2\nz = 3\n'


def p5_comment_ascii(ci: int, pos: int, tgt: int, full: bool):
    """line comments with every ASCII character (controls included) at the start, in the middle or at the end of the text: either refused with the
    tree untouched, or read back as written (up to the documented strip of surrounding whitespace) with the tree equal to CPython's parse"""
    assume(0 <= ci <= 127 and 0 <= pos <= 2 and 0 <= tgt <= 2)
    ch = chr(pc.pin(ci, 0, 127))
    text = [ch + 'ab', 'a' + ch + 'b', 'ab' + ch][pc.pin(pos, 0, 2)]
    tg = pc.pin(tgt, 0, 2)
    with pc.untraced():
        root = FST(CMT_SRC, 'exec')
        pc.reset_globals()
        node = [root.body[0], root.body[0].body[0], root.body[1]][tg]
        dump0 = ast.dump(root.a, include_attributes=True)
    sig = f'line_comment_ascii.{ord(ch):#04x}'
    try:
        node.put_line_comment(text, full=full)
    except pc.EXPECTED_RAISES:
        with pc.untraced():
            check(root.src == CMT_SRC and ast.dump(root.a, include_attributes=True) == dump0, sig + '.refusal_changed_the_tree', (text,))
        cover('raise')
        return
    with pc.untraced():
        pc.o_parse(root, sig)
        got = node.get_line_comment(full=full)
        exp = text if full else text.strip()
        if full:
            exp = None      # full=True takes the text with its own '#': not judged here beyond the parse
        if exp is not None:
            check(got == exp, sig + '.not_read_back', (text, got))
    cover('ok')


CELLS = []
for _n in (1, 2, 3, 4):
    CELLS.append(Cell(f'K1.repr_str_multiline[len={_n}]', _mk_repr(_n), 'K', FN8,
                      f'string of {_n} symbolic characters over the 10-character alphabet that drives quoting/escaping decisions (", \', backslash, newline, tab, NUL, U+2028, a, é, U+1F600)',
                      tier='quick' if _n <= 2 else 'thorough', budget=1800, stubs=['str.encode("unicode_escape") is C: the escaped character is realised on that path (finite alphabet)'],
                      out='strings longer than 4; characters outside the alphabet (they take the same branches as one of its members)'))
CELLS.append(tletter.letter_cell('T1', 'put_line_comment', 'x = 1  # old ¡\ny = "¤"\n', _s_put_comment, queries=_q_comments, tier='quick', extra='¢£',
                                 pre=lambda xs: not chr(xs[2]).isspace()))   # documented: the comment text is returned stripped of trailing whitespace (U+3000 counts)
CELLS.append(tletter.letter_cell('T1', 'put_line_comment_block', 'if c:  # ¡\n    x = 1  # s\n    y = 2\nz = 3\n', _s_put_comment_blk, queries=_q_comments, tier='quick', extra='¢£¤',
                                 pre=lambda xs: not chr(xs[1]).isspace() and not chr(xs[2]).isspace() and not chr(xs[3]).isspace()))
_Q = {'list4c', 'ifbody3', 'dict3', 'tuple3', 'uni_list', 'handlers', 'strstmts'}
for _c in pc.CARRIERS:
    for _form in ('cut_put', 'own_copy', 'own_ast', 'own_src', 'own_pure_ast'):
        if _form != 'cut_put' and (not _c.elem_ops or not _c.old):
            continue      # own_* forms need an element (an empty carrier has none: the cell would be vacuous)
        CELLS.append(Cell(f'P1.{_c.id}.{_form}', _mk_roundtrip(_c.id, _form), 'P', pc.FN_EDIT + ['fst.fst.FST.own_src', 'fst.fst.FST.copy', 'fst.code.code_as_expr'],
                          f'carrier {_c.id}; round trip {_form} with symbolic ints over Z, repeated 1-2 times; whole-tree structure (CPython parse) must equal the original',
                          tier='quick' if (_c.id in _Q and _form in ('cut_put', 'own_ast')) or (_c.id in ('strstmts', 'defdoc', 'list4c') and _form == 'own_pure_ast') else 'thorough', budget=600, per_path=60, reset=pc.reset_globals))
CELLS.append(Cell('P2.docstr', p2_docstr, 'P', ['fst.fst.FST.put_docstr', 'fst.fst.FST.get_docstr', 'fst.astutil.repr_str_multiline', 'fst.fst_core._reparse_docstr_Constants'],
                  f'{len(TEXTS)} docstring texts (quotes, backslashes, control and non-ASCII characters, indentation) x Module/def/class/method targets x reput flag (finite choice)',
                  budget=900, per_path=60, reset=pc.reset_globals))
CELLS.append(Cell('P3.own_src', p3_own_src, 'P', ['fst.fst.FST.own_src', 'fst.fst.FST.own_lines'], 'own_src() of every stmt/expr node of a 14-line carrier (finite choice) parsed by CPython',
                  budget=600, per_path=60, reset=pc.reset_globals))
CELLS.append(Cell('P4.comment_then_cut_put_back', p4_comment_then_cutput, 'P', ['fst.fst_trivia._getput_line_comment', 'fst.fst.FST.own_src', 'fst.fst.FST.get_slice', 'fst.fst.FST.put_slice'],
                  'carrier with 3 nested blocks and a try/except; pre-query kind, target statement, which ancestor, text (longer/shorter/equal): all symbolic (finite); comment reads back, ancestor own_src shows it, '
                  'cut + put back of the ancestor restores the structure', budget=900, per_path=90, reset=pc.reset_globals))
CELLS.append(Cell('P5.comment_ascii', p5_comment_ascii, 'P', ['fst.fst_trivia._getput_line_comment'], 'put_line_comment(text) with every ASCII character 0..127 (pinned) at the start / middle / end of a 3-character text, on a block header, a statement with a comment and one without, full in {False, True}: refused cleanly or read back and tree == CPython parse',
                  budget=600, per_path=60, reset=pc.reset_globals))
