"""C17 — matching depends only on structure; quantifiers behave like regular expressions.

K1: the backtracking list matcher (_match__inside_list / _match__inside_list_quantifier) through the public
    MGlobal(names=[...]).match(ast.Global(names=[...])): the target sequence is a list of SYMBOLIC one-letter strings, every
    quantifier's min/max are SYMBOLIC integers (unbounded above, None for "no maximum"), greedy / non-greedy per item.
    Assertions: accept/reject == an independent regular-expression semantics (exists a split), captured counts == the
    first solution of the textbook backtracking order (greedy: longest first; lazy: shortest first; leftmost item first).
K1b: the bare-class forms MQSTAR / MQPLUS / MQOPT (+ .NG) documented as '.*' '.+' '.?' behave as those regexes.
K2: leaf matchers: a pattern built from a node's own values matches, one differing leaf does not; int/bool/str distinctions.
P1: search(pattern) == [n for n in walk if match(pattern)] for every combinator wrapper (soundness of the leaf-type pre-filter),
    layout independence (formatted tree, re-laid-out tree, pure AST) and independence from earlier match calls.
"""
import ast

from engine.h import Cell, assume, check, cover, fail
from harness import pcommon as pc

from fst import FST
from fst.match import (M, MAND, MBinOp, MCall, MConstant, MGlobal, MList, MName, MNOT, MOR, MQ, MQOPT, MQPLUS, MQSTAR, MTAG, MTYPES, MAttribute)

PROPERTY = 'C17'
THOROUGH_SCALE = 2.0

LETTERS = (97, 98, 99)


def _sym_letter(x):
    assume(x == 97 or x == 98 or x == 99)
    return chr(x)


def _ref_solve(items, seq, i, pos):
    """first solution in backtracking order -> list of counts per item from i on, or None. item = (letters tuple | None for wildcard, min, max|None, greedy)"""
    n = len(seq)
    if i == len(items):
        return [] if pos == n else None
    pat, mn, mx, greedy = items[i]
    w = len(pat) if isinstance(pat, tuple) else 1
    # how many repetitions can match consecutively from pos
    reps = 0
    while (mx is None or reps < mx) and pos + (reps + 1) * w <= n:
        ok = True
        if isinstance(pat, tuple):
            for j in range(w):
                if seq[pos + reps * w + j] != pat[j]:
                    ok = False
                    break
        elif pat is not None and seq[pos + reps * w] != pat:
            ok = False
        if not ok:
            break
        reps += 1
    if reps < mn:
        return None
    order = range(reps, mn - 1, -1) if greedy else range(mn, reps + 1)
    for k in order:
        r = _ref_solve(items, seq, i + 1, pos + k * w)
        if r is not None:
            return [k] + r
    return None


def _mk_quant(skeleton, n, greedy_bits, static=0):
    """skeleton: list of ('a'|'.'|('a','b')|'lit:b') ; quantified items get symbolic (min, max, max_is_none)"""
    nq = sum(1 for s in skeleton if not (isinstance(s, str) and s.startswith('lit:')))

    def k1(x0: int, x1: int, x2: int, x3: int, m0: int, M0: int, u0: bool, m1: int, M1: int, u1: bool):
        xs = [x0, x1, x2, x3][:n]
        for x in [x0, x1, x2, x3][n:]:
            assume(x == 97)
        seq = [_sym_letter(x) for x in xs]
        bounds = [(m0, M0, u0), (m1, M1, u1)][:nq]
        for b in [(m0, M0, u0), (m1, M1, u1)][nq:]:
            assume(b[0] == 0 and b[1] == 0 and not b[2])
        items = []
        pats = []
        qi = 0
        for s in skeleton:
            if isinstance(s, str) and s.startswith('lit:'):
                items.append((s[4:], 1, 1, True))
                pats.append(s[4:])
                continue
            mn, mx, unb = bounds[qi]
            assume(0 <= mn and (unb or mn <= mx))
            if unb:
                assume(mx == 0)
            g = bool(greedy_bits >> qi & 1)
            cls = MQ if g else MQ.NG
            p = ... if s == '.' else list(s) if isinstance(s, tuple) else s
            if static and not isinstance(p, list):
                p = M(**{f'x{qi}': p})       # an inner tag: after the match it must hold the element of the LAST repetition kept, none if zero repetitions
            if static:      # untagged quantifier (its inner tags surface at the top level), extra keywords = static tags of the quantifier
                pats.append(cls(p, min=mn, max=None if unb else mx, **({f's{qi}': 1} if static >> qi & 1 else {})))
            else:
                pats.append(cls(**{f't{qi}': p}, min=mn, max=None if unb else mx))
            items.append((None if s == '.' else s, mn, None if unb else mx, g))
            qi += 1
        m = MGlobal(names=pats).match(ast.Global(names=seq))
        exp = _ref_solve(items, seq, 0, 0)
        sig = f'quant.{skeleton}.n={n}.g={greedy_bits}'
        if exp is None:
            check(m is None, 'quantifier.accepts_what_the_regex_rejects', (skeleton, seq, bounds))
            cover('reject')
            return
        check(m is not None, 'quantifier.rejects_what_the_regex_accepts', (skeleton, seq, bounds, exp))
        qi = 0
        for ii_, (it, k) in enumerate(zip(items, exp)):
            if it[1:] == (1, 1, True) and isinstance(it[0], str) and len(pats) and not isinstance(pats[ii_], MQ):
                continue
            if not static:
                check(f't{qi}' in m.tags, 'quantifier.capture_tag_missing_from_successful_match', (skeleton, seq, bounds, qi, sorted(m.tags)))
                got = len(m.tags[f't{qi}'])
                check(got == k, 'quantifier.captures_differ_from_regex_backtracking_order', (skeleton, seq, bounds, qi, got, exp))
            if static and not isinstance(it[0], tuple):
                pos_ = sum(exp[:ii_])          # single-element items: elements consumed before this item
                if k:
                    check(m.tags.get(f'x{qi}') == seq[pos_ + k - 1], 'quantifier.inner_tag_is_not_from_the_last_kept_repetition', (skeleton, seq, bounds, qi, exp))
                else:
                    check(f'x{qi}' not in m.tags, 'quantifier.inner_tag_left_over_from_a_dropped_repetition', (skeleton, seq, bounds, qi, exp))
            qi += 1
        # a second, identical call gives the same answer (no state carried between matches)
        m2 = MGlobal(names=pats).match(ast.Global(names=seq))
        _shape = lambda t_: {k_: (len(v) if isinstance(v, list) else v) for k_, v in t_.items()}     # noqa: E731
        check(m2 is not None and _shape(m2.tags) == _shape(m.tags), 'quantifier.second_call_differs', (skeleton, seq))
        cover('accept')
    return k1


BARE = [(MQSTAR, 0, None, True), (MQPLUS, 1, None, True), (MQOPT, 0, 1, True), (MQSTAR.NG, 0, None, False), (MQPLUS.NG, 1, None, False), (MQOPT.NG, 0, 1, False),
        (MQSTAR(...), 0, None, True), (MQOPT(...), 0, 1, True), (MQPLUS.NG(...), 1, None, False)]


def _mk_bare(n, md):
    def k1b(x0: int, x1: int, x2: int, x3: int, f0: int, f1: int):
        xs = [x0, x1, x2, x3][:n]
        for x in [x0, x1, x2, x3][n:]:
            assume(x == 97)
        seq = [_sym_letter(x) for x in xs]
        assume(0 <= f0 < len(BARE) and 0 <= f1 < len(BARE))
        a, b = BARE[pc.pin(f0, 0, len(BARE) - 1)], BARE[pc.pin(f1, 0, len(BARE) - 1)]
        # pattern: <bare0> [M(x='b') | M(x=...)] <bare1>   ==  regex  .{q0} (b|.) .{q1}
        pats = [a[0]] + ([] if md == 0 else [M(x='b')] if md == 1 else [M(x=...)]) + [b[0]]
        items = [(None, a[1], a[2], a[3])] + ([] if md == 0 else [('b', 1, 1, True)] if md == 1 else [(None, 1, 1, True)]) + [(None, b[1], b[2], b[3])]
        m = MGlobal(names=pats).match(ast.Global(names=seq))
        exp = _ref_solve(items, seq, 0, 0)
        if exp is None:
            check(m is None, 'bare_quantifier.accepts_what_the_regex_rejects', (seq, md, pc.R(f0), pc.R(f1)))
            cover('reject')
            return
        check(m is not None, 'bare_quantifier.rejects_what_the_regex_accepts', (seq, md, pc.R(f0), pc.R(f1), exp))
        if md:
            # position of the middle capture = number of elements the first quantifier took
            check('x' in m.tags, 'bare_quantifier.capture_tag_missing_from_successful_match', (seq, md, sorted(m.tags)))
            check(m.tags['x'] == seq[exp[0]], 'bare_quantifier.capture_position_differs_from_regex', (seq, md, exp))
        cover('accept')
    return k1b


# ---------------------------------------------------------------------------------------------------------------- K2
def k2_leaf(i: int, j: int, s0: int, s1: int, bsel: int):
    """pattern from own values matches; one differing leaf does not; 0 / False / '0' are different leaves"""
    assume(-3 <= i <= 3 and -3 <= j <= 3)
    i, j = pc.pin(i, -3, 3), pc.pin(j, -3, 3)      # concrete ints: pfst's primitive matcher compares real classes, which a symbolic int proxy does not have
    a, b = _sym_letter(s0), _sym_letter(s1)
    assume(0 <= bsel <= 3)
    tgt = ast.Call(func=ast.Name(id=a, ctx=ast.Load()), args=[ast.Constant(value=i)], keywords=[])
    pat_same = MCall(func=MName(id=a), args=[MConstant(value=i)])
    check(pat_same.match(tgt) is not None, 'leaf.own_values_do_not_match', (a, pc.R(i)))
    pat_other = MCall(func=MName(id=b), args=[MConstant(value=j)])
    m = pat_other.match(tgt)
    same = (a == b) and (i == j)
    check((m is not None) == same, 'leaf.match_not_equivalent_to_equality', (a, b, pc.R(i), pc.R(j)))
    # bool vs int vs str
    other = [False, True, '0', 0.0][pc.pin(bsel, 0, 3)]
    ic = i
    t2 = ast.Constant(value=other)
    m2 = MConstant(value=ic).match(t2)
    check(m2 is None, 'leaf.int_pattern_matches_non_int_constant', (ic, other))
    m3 = MConstant(value=other).match(ast.Constant(value=ic))
    check(m3 is None, 'leaf.non_int_pattern_matches_int_constant', (ic, other))
    cover('ok')


# ---------------------------------------------------------------------------------------------------------------- P1
SEARCH_SRC = 'x = f(a, g(b), [a, 1], a.b, k=a)\ny = a + f(2) * a\ndef h(a=f(a)):\n    return [a for a in b if a]\n'
RELAID = 'x = f(a,  # c\n      g(b), [ a , 1 ],\n      a . b, k = a)\ny = (a) + f(2) \\\n  * a\ndef h(a=f( a )):\n    return [a for a in b\n            if a]\n'
BASE_PATS = [
    ('name_a', lambda: MName(id='a')),
    ('call_f', lambda: MCall(func=MName(id='f'))),
    ('const', lambda: MConstant(value=...)),
    ('binop', lambda: MBinOp()),
    ('attr', lambda: MAttribute(value=MName(id='a'))),
    ('list_q', lambda: MList(elts=[MQSTAR, MName(id='a'), MQSTAR])),
    ('ctx_load_inst', lambda: ast.Load()),                       # an expr_context INSTANCE: not compared unless ctx=True, so it matches every context node
    ('ast_name_inst', lambda: ast.Name(id='a', ctx=ast.Store())),   # a pure AST node as pattern, its ctx instance ignored by default
]
WRAPS = [
    ('plain', lambda p, q: p),
    ('M', lambda p, q: M(t=p)),
    ('MOR', lambda p, q: MOR(p, q)),
    ('MOR_rev', lambda p, q: MOR(q, p)),
    ('MAND', lambda p, q: MAND(p, M(u=...))),
    ('MNOT', lambda p, q: MNOT(p)),
    ('MNOT_MNOT', lambda p, q: MNOT(MNOT(p))),
    ('MAND_MNOT', lambda p, q: MAND(MNOT(q), p)),
    ('MOR_MNOT', lambda p, q: MOR(MNOT(p), q)),
    ('MTYPES', lambda p, q: MOR(MTYPES((ast.Name, ast.Call)), p)),
]


def _mk_search(wfix):
  def p1_search(bi: int, qi: int, which: int):
    return _p1_search(bi, qi, wfix, which)
  return p1_search


def _p1_search(bi: int, qi: int, wi: int, which: int):
    assume(0 <= bi < len(BASE_PATS) and 0 <= qi < len(BASE_PATS) and 0 <= wi < len(WRAPS) and 0 <= which <= 2)
    b, q, w = pc.pin(bi, 0, len(BASE_PATS) - 1), pc.pin(qi, 0, len(BASE_PATS) - 1), pc.pin(wi, 0, len(WRAPS) - 1)
    wh = pc.pin(which, 0, 2)
    mk = lambda: WRAPS[w][1](BASE_PATS[b][1](), BASE_PATS[q][1]())   # noqa: E731
    with pc.untraced():
        root = FST(SEARCH_SRC, 'exec')
        root2 = FST(RELAID, 'exec')
        pure = ast.parse(SEARCH_SRC)
        pc.reset_globals()
    sig = f'search.{BASE_PATS[b][0]}.{WRAPS[w][0]}({BASE_PATS[q][0]})'
    pat = mk()
    walked = list(root.walk(True))
    exp = [f for f in walked if f.match(pat)]
    got = [mm.matched for mm in root.search(pat)]
    check([id(f) for f in got] == [id(f) for f in exp], 'search.differs_from_filtered_walk.' + WRAPS[w][0],
          (BASE_PATS[b][0], BASE_PATS[q][0], [type(f.a).__name__ for f in got], [type(f.a).__name__ for f in exp]))
    # layout independence: same ordinal positions match on the re-laid-out tree and on the pure AST
    idx = [walked.index(f) for f in exp]
    if wh == 1:
        walked2 = list(root2.walk(True))
        check(len(walked2) == len(walked), 'harness.relaid_tree_differs')
        idx2 = [i for i, f in enumerate(walked2) if f.match(mk())]
        check(idx2 == idx, 'match.depends_on_layout.' + WRAPS[w][0], (BASE_PATS[b][0], BASE_PATS[q][0], idx, idx2))
    elif wh == 2:
        order = {id(n): i for i, n in enumerate(f.a for f in walked)}
        pure_nodes = list(ast.walk(pure))
        live_nodes = list(ast.walk(root.a))
        idx3 = sorted(order[id(live_nodes[i])] for i, n in enumerate(pure_nodes) if (M(mk()) if isinstance(mk(), ast.AST) else mk()).match(n))
        check(idx3 == sorted(idx), 'match.pure_ast_differs_from_formatted_tree.' + WRAPS[w][0], (BASE_PATS[b][0], BASE_PATS[q][0], idx, idx3))
    # repeated calls / interleaving with another pattern do not change the answer
    other = BASE_PATS[q][1]()
    list(root.search(other))
    got2 = [mm.matched for mm in root.search(pat)]
    check([id(f) for f in got2] == [id(f) for f in got], 'search.depends_on_previous_calls', (BASE_PATS[b][0], WRAPS[w][0]))
    cover('ok')


NESTED = [
    ('sub_star_inner_star', lambda: [MQSTAR(['a', MQSTAR('b')]), 'b'], r'(?:ab*)*b'),
    ('sub_star_inner_plus', lambda: [MQSTAR([MQPLUS(...)]), 'b'], r'(?:.+)*b'),
    ('sub_bounded_inner_opts', lambda: [MQ([MQOPT('a'), MQOPT('b')], min=0, max=2), 'b'], r'(?:a?b?){0,2}b'),
    ('sub_plus_inner_lazy', lambda: [MQPLUS(['a', MQSTAR.NG(...)]), 'c'], r'(?:a.*?)+c'),
    ('backref_after_star', lambda: [M(x=...), MQSTAR, MTAG('x')], r'(.).*\1'),
    ('backref_to_quantified', lambda: [MQ(M(x=...), min=0, max=2), MTAG('x'), MQSTAR], r'(?:(.)){0,2}\1.*'),
    ('backref_lazy', lambda: [MQPLUS.NG(M(x=...)), MTAG('x')], r'(?:(.))+?\1'),
]


def _mk_nested(ni, n):
    name, mk, rx = NESTED[ni]

    def k1n(x0: int, x1: int, x2: int, x3: int):
        import re as _re
        xs = [x0, x1, x2, x3][:n]
        for x in [x0, x1, x2, x3][n:]:
            assume(x == 97)
        for x in xs:
            assume(97 <= x <= 99)
        seq = [chr(pc.pin(x, 97, 99)) for x in xs]      # letters pinned: the oracle is Python's own regular-expression engine on the concrete word
        m = MGlobal(names=mk()).match(ast.Global(names=seq))
        exp = _re.fullmatch(rx, ''.join(seq))
        check((m is not None) == (exp is not None), 'nested_quantifier.accept_reject_differs_from_the_regular_expression:' + name, (rx, ''.join(seq), m is not None))
        if m is not None and exp is not None and exp.groups() and 'x' in m.tags:
            check(m.tags['x'] == exp.group(1), 'nested_quantifier.capture_differs_from_the_regular_expression:' + name, (rx, ''.join(seq), m.tags['x'], exp.group(1)))
        cover('accept' if m is not None else 'reject')
    return k1n


def p2_reuse(o0: int, o1: int, o2: int):
    """pattern OBJECTS reused under several wrappers: the answers (match / no match, tags) of every use equal those of freshly built patterns, whatever
    was matched before with the shared parts (a match never depends on previous match calls)"""
    assume(0 <= o0 <= 5 and 0 <= o1 <= 5 and 0 <= o2 <= 5)
    order = [pc.pin(o0, 0, 5), pc.pin(o1, 0, 5), pc.pin(o2, 0, 5)]

    def build():
        name = M(MName(), is_name=True)
        call = M(MCall(func=name), is_call=True)
        alt = MOR(M(MAttribute(value=name), is_attr=True), name)
        lst = M(MList(elts=[MQSTAR(t=name), MQSTAR]), is_list=True)
        return [name, call, alt, lst, M(nm=name), MAND(name, M(second=...))]
    targets = ['f()', 'x', 'a.b', '[p, q, 1]', 'g(1)', 'h']
    shared = build()

    def tagsof(m):
        return None if m is None else sorted((k, (len(v) if isinstance(v, list) else type(v).__name__ if hasattr(v, 'a') else repr(v))) for k, v in m.tags.items())
    for oi in order:
        pat = shared[oi]
        for tsrc in targets:
            with pc.untraced():
                tgt = FST(tsrc, 'exec').body[0].value
                fresh = build()[oi]
            got = tagsof(pat.match(tgt))
            exp = tagsof(fresh.match(tgt))
            check(got == exp, 'match.depends_on_previous_matches_with_shared_subpatterns', (oi, tsrc, got, exp, order))
    cover('ok')


FNM = ['fst.match._match__inside_list', 'fst.match._match__inside_list_quantifier', 'fst.match.MQ.__init__', 'fst.match._match_str', 'fst.match._match_primitive',
       'fst.match._match_node', 'fst.match._match_type']
SKELETONS = [('a', '.'), ('.', 'a'), ('a', 'lit:b', '.'), ('.', 'lit:b', 'a'), (('a', 'b'), '.'), ('.', ('a', 'b')), ('a',), (('a', 'b'),)]
CELLS = []
for _sk in SKELETONS:
    _nq = sum(1 for s in _sk if not (isinstance(s, str) and s.startswith('lit:')))
    for _n in (0, 1, 2, 3, 4):
        for _g in range(1 << _nq):
            _sub = any(isinstance(s, tuple) for s in _sk)
            _q = (_n <= 3 and _sk in (('a', '.'), ('a', 'lit:b', '.'), (('a', 'b'), '.')) and not (_sub and _n == 3 and _g in (1, 2))) or (_sk == ('.', 'a') and _n <= 2)
            CELLS.append(Cell(f'K1.quant[{"".join(str(s) if not isinstance(s, tuple) else "(" + "".join(s) + ")" for s in _sk)},n={_n},greedy={_g:0{_nq}b}]',
                              _mk_quant(list(_sk), _n, _g), 'K', FNM[:3],
                              f'pattern skeleton {_sk} (quantified items with SYMBOLIC min >= 0 and max >= min or None, all integers); target = {_n} symbolic letters from {{a,b,c}}; '
                              f'greedy bits {_g:b}', tier='quick' if _q else 'thorough', budget=900, per_path=60,
                              out='targets longer than 4; more than 2 quantified items; nested sub-list quantifiers; back-references'))
for _sk in (('.', '.'), ('a', '.')):
    for _n in (2, 3):
        for _g in (3, 2, 1):
            for _st in (1, 3):
                CELLS.append(Cell(f'K1s.quant_static[{"".join(_sk)},n={_n},greedy={_g:02b},static={_st:02b}]', _mk_quant(list(_sk), _n, _g, _st), 'K', FNM[:3],
                                  f'as K1.quant, with a STATIC tag on the quantifiers in mask {_st:02b} (static tags travel with every repetition and must not disturb backtracking or captures)',
                                  tier='quick' if _g == 3 and _n == 3 else 'thorough', budget=900, per_path=60))
for _n in (0, 1, 2, 3, 4):
    for _md in (0, 1, 2):
        CELLS.append(Cell(f'K1b.bare[n={_n},mid={("none", "b", "any")[_md]}]', _mk_bare(_n, _md), 'K', FNM[:3],
                          f'<Q0> {("", "M(x=b)", "M(x=...)")[_md]} <Q1> with Q0, Q1 symbolic over the 9 bare-class / instance forms of MQSTAR, MQPLUS, MQOPT (+ .NG); target = {_n} symbolic letters',
                          tier='quick' if _n <= 2 else 'thorough', budget=900, per_path=60))
CELLS.append(Cell('K2.leaf', k2_leaf, 'K', FNM[3:], 'Call(Name(x), [Constant(i)]) vs pattern with Name(y), Constant(j): x, y symbolic letters, i, j symbolic ints in -3..3; int vs bool/str/float constants',
                  budget=600))
for _wi, (_wn, _wf) in enumerate(WRAPS):
    CELLS.append(Cell(f'P1.search_vs_match[{_wn}]', _mk_search(_wi), 'P', ['fst.match.search', 'fst.match._leaf_asts_default', 'fst.fst_traverse.walk'],
                      f'{len(BASE_PATS)} base patterns x {len(BASE_PATS)} partner patterns under combinator wrapper {_wn} (finite choice, solver-enumerated) on a 4-line carrier, '
                      'its re-laid-out version and its pure AST', budget=900, per_path=120, out='patterns outside the table; MRE source-text patterns (excluded by the property)',
                      reset=pc.reset_globals))
CELLS.append(Cell('P2.reuse', p2_reuse, 'P', ['fst.match.M._match', 'fst.match._MatchState.pop_merge_tagss'], '6 pattern objects sharing sub-patterns with static tags, used in a symbolic order of 3 (6^3 histories) on 6 targets: every answer equals that of freshly built patterns',
                  budget=600, per_path=60, reset=pc.reset_globals))
for _ni, (_nn, _mk, _rx) in enumerate(NESTED):
    for _n in (2, 3, 4):
        CELLS.append(Cell(f'K1n.nested[{_nn},n={_n}]', _mk_nested(_ni, _n), 'K', FNM[:3],
                          f'pattern {_nn} == regular expression {_rx!r} on every word of {_n} letters over {{a, b, c}} (letters pinned; oracle = Python re.fullmatch): quantifiers nested in sub-list quantifiers, back-references',
                          tier='quick' if _n == 3 else 'thorough', budget=300, per_path=60))
