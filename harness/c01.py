"""C01 — after any successful edit the source text parses to exactly the live tree.

K1: the text-splice primitive (_put_src + _params_offset): resulting lines == independent splice, returned offset
    parameters == UTF-8 byte arithmetic, for symbolic code points (all of Unicode) and all valid coordinates.
T1: the position-shift primitive (_offset) on symbolically re-laid-out trees for arbitrary tail/head/exclude/self_ flags
    against the behaviour its docstring defines.
P1: public edits on carriers, symbolic indices over Z, CPython re-parse compared incl. every position; histories of 2 edits.
"""
import ast

from engine import symbistr  # noqa: F401  (keeps bistr symbolic: pfst's own c2b/b2c run on symbolic characters)
from engine.h import Cell, assume, check, cover, okcp, w8
from harness import pcommon as pc
from harness import toffset

from fst import FST
from fst.fst_core import _params_offset

PROPERTY = 'C01'
THOROUGH_SCALE = 2.0
THOROUGH_STRIDE = 3        # thorough tier = all quick cells + every 3th thorough-only cell (sized to run end-to-end; '--cells' reaches the others)


def _mk_putsrc(ln_c, end_ln_c, nput):
    def k1(x0: int, y0: int, col: int, end_col: int):
        for x in (x0, y0):
            assume(okcp(x) and x != 10 and x != 13)
        # the symbolic character sits on the END line of the span (the line whose byte offsets are computed), before/inside the span
        lines = ['éa=', 'b€ #', 'c𝒳']
        ws = [[2, 1, 1], [1, 3, 1, 1], [1, 4]]
        lines[end_ln_c] = lines[end_ln_c][:1] + chr(x0) + lines[end_ln_c][2:]
        ws[end_ln_c][1] = w8(x0)
        put = [chr(y0) + 'z'] if nput == 1 else ['p' + chr(y0), 'q'] if nput == 2 else ['', chr(y0), '']
        wput_last = [w8(y0) + 1, 1, 0][nput - 1]
        ln, end_ln = ln_c, end_ln_c
        assume(0 <= col <= len(lines[ln]) and 0 <= end_col <= len(lines[end_ln]))
        assume(ln < end_ln or col <= end_col)
        colc = pc.pin(col, 0, 4)
        ecolc = pc.pin(end_col, 0, 4)
        root = FST(ast.Module(body=[], type_ignores=[]), list(lines), None)
        p = root._put_src(list(put), ln, col, end_ln, end_col, True, False)
        # reference splice
        exp = lines[:ln] + [lines[ln][:colc] + put[0]] + put[1:-1] + ([put[-1] + lines[end_ln][ecolc:]] if len(put) > 1 else []) + lines[end_ln + 1:]
        if len(put) == 1:
            exp = lines[:ln] + [lines[ln][:colc] + put[0] + lines[end_ln][ecolc:]] + lines[end_ln + 1:]
        got = root._lines
        check(len(got) == len(exp), 'put_src.line_count', (len(got), len(exp)))
        for g, e in zip(got, exp):
            check(g == e, 'put_src.text_wrong', (ln, colc, end_ln, ecolc, nput))
        bend = sum(ws[end_ln][:ecolc])
        bstart = sum(ws[ln][:colc])
        check(p.ln == end_ln and p.col_offset == -bend, 'params_offset.point_wrong', (ln, colc, end_ln, ecolc))
        check(p.dln == (len(put) - 1) - (end_ln - ln), 'params_offset.dln_wrong')
        check(p.dcol_offset == wput_last - bend + (bstart if len(put) == 1 else 0), 'params_offset.dcol_wrong', (ln, colc, end_ln, ecolc, nput))
        # delete form
        root2 = FST(ast.Module(body=[], type_ignores=[]), list(lines), None)
        p2 = root2._put_src(None, ln, col, end_ln, end_col, True, False)
        exp2 = lines[:ln] + [lines[ln][:colc] + lines[end_ln][ecolc:]] + lines[end_ln + 1:]
        check(list(root2._lines) == exp2, 'put_src.delete_text_wrong', (ln, colc, end_ln, ecolc))
        check(p2.dln == -(end_ln - ln) and p2.dcol_offset == -bend + bstart and p2.col_offset == -bend, 'params_offset.delete_wrong')
        cover('ok')
    return k1


CELLS = []
for _ln, _eln in ((0, 0), (0, 1), (1, 1), (0, 2), (1, 2)):
    for _np in (1, 2, 3):
        CELLS.append(Cell(f'K1.put_src[{_ln}-{_eln},put{_np}]', _mk_putsrc(_ln, _eln, _np), 'K',
                          ['fst.fst_core._put_src', 'fst.fst_core._params_offset', 'fst.astutil.bistr.c2b'],
                          f'3 source lines (3/4/2 chars, multi-byte characters on each) with 1 symbolic code point (any Unicode scalar value) on the end line, put text of {_np} line(s) with 1 symbolic code point; '
                          f'ln={_ln}, end_ln={_eln}; col, end_col: all valid integers; insert, replace and delete forms',
                          tier='quick' if (_ln, _eln, _np) in ((0, 0, 1), (0, 1, 2), (1, 1, 1), (1, 2, 3)) else 'thorough', budget=300,
                          stubs=['bistr(...) construction bypassed (C str.__new__); c2b/b2c/lenbytes are pfst\'s own method bodies on the symbolic string'],
                          out='longer lines; the tree offset step (T1)', reset=pc.reset_globals))

CELLS += toffset.general_offset_cells('T1', ('tuple',))


def _mk_hist(cid, op1, k1_, op2, k2_):
    """History of two edits on the same container; O-parse (all positions) after each step."""
    c = pc.CARRIER[cid]

    def fn(a1: int, b1: int, a2: int, b2: int):
        x = pc.Ctx(c)
        sig = f'{cid}.{op1}[{k1_}]>{op2}[{k2_}]'
        exp1, run1 = pc.OPS[op1](x, k1_, a1, b1, 0, 0)
        try:
            with FST.options(**pc.OPTS):
                run1()
        except pc.EXPECTED_RAISES:
            x.check_unchanged(sig + '.step1.raise')
            cover('raise1')
            return
        check(exp1 is not None, sig + '.bad_index_accepted')
        x.check_after(exp1, sig + '.step1', olist=False)
        # second edit on the edited tree: same container object, new length
        x.old = exp1
        x.n = len(exp1)
        with pc.untraced():
            x.src0 = x.root.src
            pc.realize_tree(x.root.a)
            x.dump0 = ast.dump(x.root.a, include_attributes=True)
            try:
                x.cont = c.locate(x.root)
            except (AttributeError, IndexError):
                cover('container_collapsed')
                return
        exp2, run2 = pc.OPS[op2](x, k2_, a2, b2, 0, 0)
        try:
            with FST.options(**pc.OPTS):
                run2()
        except pc.EXPECTED_RAISES:
            x.check_unchanged(sig + '.step2.raise')
            cover('raise2')
            return
        check(exp2 is not None, sig + '.bad_index_accepted2')
        x.check_after(exp2, sig + '.step2', olist=True)
        cover('ok')
    return fn


_P_QUICK = {'list4c', 'tuple3', 'ifbody3', 'uni_list', 'decos', 'callargs', 'withitems', 'dict3'}
for _c in pc.CARRIERS:
    for _op, _k in (('put_slice', 2), ('put_slice', 0), ('view_setitem', 1), ('insert', 1)):
        CELLS.append(Cell(f'P1.{_c.id}.{_op}[{_k}]', pc.make_edit_fn(_c.id, _op, _k, 'c01'), 'P', pc.FN_EDIT,
                          f'carrier {_c.id}; op {_op} with {_k} new element(s); {pc.USES[_op]} symbolic int parameter(s) over all of Z; CPython re-parse incl. all positions',
                          tier='quick' if _c.id in _P_QUICK and (_op, _k) in (('put_slice', 2), ('view_setitem', 1)) else 'thorough', budget=240, per_path=60,
                          out='other programs / snippets', reset=pc.reset_globals))
for _cid in ('list4c', 'ifbody3', 'tuple3', 'dict3', 'modbody', 'uni_list', 'handlers', 'funcbody'):
    for (_o1, _ka, _o2, _kb) in (('insert', 1, 'view_delitem', 1), ('put_slice', 2, 'insert', 1), ('put_slice', 0, 'insert', 1), ('insert', 1, 'view_delslice', 1)):
        CELLS.append(Cell(f'P2.{_cid}.{_o1}[{_ka}]>{_o2}[{_kb}]', _mk_hist(_cid, _o1, _ka, _o2, _kb), 'P', pc.FN_EDIT,
                          f'carrier {_cid}; history of two edits ({_o1} then {_o2}), 4 symbolic ints over Z; O-parse after each step, O-list after the second',
                          tier='quick' if (_cid in ('list4c', 'ifbody3', 'dict3') and _o2 == 'view_delitem') else 'thorough', budget=900, per_path=60,
                          out='histories longer than 2', reset=pc.reset_globals))

# ---------------------------------------------------------------------------------------------------------------- T2
from harness import tletter  # noqa: E402


def _s_binop(f):
    f.body[0].value.right.replace('b*c')


def _s_binop2(f):
    f.body[0].value.right.replace('b*c')
    f.body[0].value.right.right.replace('p+q')


def _s_list_put(f):
    f.body[0].value.put_slice('p, q', 1, 2)


def _s_fdebug(f):
    f.body[0].value.args[1].values[1].value.replace('abc.d')


def _s_fspec_nested(f):
    f.body[0].value.args[1].values[0].value.right.right.replace('abc.d')


def _s_fspec_tuple(f):
    f.body[0].value.args[1].values[0].value.elts[1].right.replace('q')


def _s_call_kw(f):
    f.body[0].value.keywords[0].value.replace('w + 1')


def _s_stmt_insert(f):
    f.body[0].insert('z = 2', 1, 'body')


def _s_del_elt(f):
    del f.body[0].value.elts[1]


LETTER = [
    ('binop_replace', 's = "¡" + a  # ¢\nt = 1\n', _s_binop, 'quick'),
    ('binop_replace_twice', 's = "¡" + a  # ¢\nt = 1\n', _s_binop2, 'quick'),
    ('list_put_slice', 'x = ["¡", a,  # ¢\n     b, "£"]\n', _s_list_put, 'quick'),
    ('fstring_debug_replace', 'print("¡", f"{a=}")\n', _s_fdebug, 'quick'),
    ('fstring_spec_nested', 'print("¡", f"{x+y*a:>5}")  # ¢\n', _s_fspec_nested, 'quick'),
    ('fstring_spec_tuple', 'print("¡", f"{a, b+ccc:>5}")\n', _s_fspec_tuple, 'thorough'),
    ('call_kw_replace', 'r = f("¡", k=v)  # ¢\n', _s_call_kw, 'thorough'),
    ('stmt_insert', 'if c:  # ¡\n    x = "¢"  # £\n    y = 1\n', _s_stmt_insert, 'thorough'),
    ('tuple_del_elt', 'x = ("¡", a, "¢", b)\n', _s_del_elt, 'thorough'),
]
for _n, _src, _scr, _tier in LETTER:
    CELLS.append(tletter.letter_cell('T2', _n, _src, _scr, tier=_tier))


# ---------------------------------------------------------------------------------------------------------------- P3
# attribute assignment of PRIMITIVE fields (node.value = ..., node.id = ..., node.level = ...) on tight layouts where the new text touches
# its neighbours: the source must still parse to the live tree
ATTR_SRCS = {
    'tight_ifexp': 'x = 1if a else b\ny = a if 1else b\nz = a if b else"s"\n',
    'tight_misc': 'v = [a for a in"s"if 2or a]\nw = 1.5.real\nu = not"t"\n',
    'imports': 'from.a import b\nfrom . import c as d\nimport e.f\n',
    'names': 'def f(p, *q, r=1, **s): return p.t\nclass K(B, m=N): pass\nglobal g, h\n',
}
ATTR_VALUES = [True, None, 5, 0, 'str', 2.5, b'by', ..., 'a"b', False, 10 ** 20]


def _mk_attr(key):
    src = ATTR_SRCS[key]

    def fn(k: int, vi: int):
        assume(0 <= vi < len(ATTR_VALUES) + 3)
        v_i = pc.pin(vi, 0, len(ATTR_VALUES) + 2)
        with pc.untraced():
            root = FST(src, 'exec')
            pc.reset_globals()
            pairs = []
            for n in ast.walk(root.a):
                for f_ in n._fields:
                    val = getattr(n, f_, None)
                    if isinstance(n, ast.Constant) and f_ in ('value', 'kind'):
                        pairs.append((n, f_))
                    elif isinstance(val, str) and f_ in ('id', 'attr', 'arg', 'name', 'asname', 'module'):
                        pairs.append((n, f_))
                    elif f_ in ('level',) or (f_ == 'asname' and val is None):
                        pairs.append((n, f_))
        assume(0 <= k < len(pairs))
        node, field = pairs[pc.pin(k, 0, len(pairs) - 1)]
        old = getattr(node, field)
        if field == 'value':
            assume(v_i < len(ATTR_VALUES))
            new = ATTR_VALUES[v_i]
        elif field == 'kind':
            assume(v_i < 2 and isinstance(node.value, str))
            new = [None, 'u'][v_i]
        elif field == 'level':
            assume(v_i < 3)
            new = v_i
            assume(not (new == 0 and node.module is None))
        else:
            assume(v_i < 2)
            new = ['zz', 'é_1'][v_i]
        sig = f'attr_assign.{key}.{type(node).__name__}.{field}'
        try:
            setattr(node.f, field, new)
        except pc.EXPECTED_RAISES + (TypeError,):
            with pc.untraced():
                check(root.src == src, sig + '.failed_assignment_changed_source', (old, new, root.src))
            cover('raise')
            return
        with pc.untraced():
            pc.o_parse(root, sig + f'<-{new!r}')
            pc.links_ok(root, sig)
        cover('ok')
    return fn


for _k in ATTR_SRCS:
    CELLS.append(Cell(f'P3.attr_assign[{_k}]', _mk_attr(_k), 'P', ['fst.fst_accessors', 'fst.fst_put_one._put_one', 'fst.fst_put_one._put_one_constant', 'fst.fst_put_one._put_one_identifier'],
                      f'carrier {ATTR_SRCS[_k]!r}; attribute assignment node.<primitive field> = value for every (node, primitive field) pair (symbolic ordinal) and a symbolic choice among '
                      f'{len(ATTR_VALUES)} constant values / 2 identifiers / levels 0..2 / kinds; the source must parse (CPython) to the live tree incl. positions',
                      tier='quick', budget=600, per_path=60, out='values which have no literal form (inf, nan, negative and complex numbers)', reset=pc.reset_globals))


# ---------------------------------------------------------------------------------------------------------------- P4
# trees parsed with type_comments=True: Module.type_ignores carry a line number which every line-count-changing edit has to keep in step
TI_SRC = 'x = (1,\n     2)\ny = 2  # type: ignore\nz = [3,\n     4]  # type: ignore[misc]\nw = 5\n'


def p4_type_ignores(op: int, i: int):
    assume(0 <= op <= 3)
    o = pc.pin(op, 0, 3)
    with pc.untraced():
        root = FST(TI_SRC, 'exec', type_comments=True)
        pc.reset_globals()
        n = len(root.a.body)
    try:
        if o == 0:
            assume(-n - 2 <= i <= n + 2)
            root.body.insert('q = 0', pc.pin(i, -n - 2, n + 2))
        elif o == 1:
            assume(-n <= i < n)
            root.body[pc.pin(i, -n, n - 1)].remove()
        elif o == 2:
            assume(-n <= i < n)
            root.body[pc.pin(i, -n, n - 1)].replace('r = (7,\n     8,\n     9)')
        else:
            assume(0 <= i <= 1)
            root.body[0].value.put_src(' ' if pc.pin(i, 0, 1) else '\n\n ', 0, 7, 1, 5, 'offset')
    except pc.EXPECTED_RAISES:
        cover('raise')
        return
    with pc.untraced():
        src = pc.R(root.src)
        try:
            t = ast.parse(src, type_comments=True)
        except SyntaxError as e:
            pc.fail('type_ignores.src_unparsable', (src, str(e)))
        pc.realize_tree(root.a)
        got = [(ti.lineno, ti.tag) for ti in root.a.type_ignores]
        exp = [(ti.lineno, ti.tag) for ti in t.type_ignores]
        check(got == exp, 'type_ignores.line_numbers_differ_from_parse_after_edit', (('insert', 'remove', 'replace', 'offset')[o], pc.R(i), got, exp))
        check(ast.dump(root.a) == ast.dump(t), 'type_ignores.tree_structure_differs_from_parse', (src,))
    cover('ok')


CELLS.append(Cell('P4.type_ignores', p4_type_ignores, 'P', ['fst.fst_core._put_src', 'fst.fst_core._offset'],
                  'a module parsed with type_comments=True (two "# type: ignore" comments); insert / remove / replace of a statement at a symbolic index, or an offset-mode splice joining / splitting lines: '
                  'Module.type_ignores (line number, tag) must equal those of ast.parse(src, type_comments=True)', tier='quick', budget=300, per_path=60, reset=pc.reset_globals))
