"""Shared machinery for shape-P harnesses (symbolic parameters over concrete carriers)."""


def c03_cells():
    return []
