"""Shared machinery for shape-P harnesses: public pfst API calls on carrier programs with every integer / boolean
parameter symbolic. The real pfst code runs under the symbolic tracer and forks on its own comparisons; the harness
additionally case-splits ("pins") the outputs of its pure-Python list-semantics reference so that on every path both the
real result and the expected result are single concrete values. Exhausting the path tree is therefore a z3-certified
partition of the WHOLE integer domain of the parameters (negative, out of range, huge) for the listed carriers.

Oracles here never call pfst: CPython's ast.parse / ast.dump / tokenize and Python list semantics only.
"""
from __future__ import annotations

import ast
import contextlib
import re
import io
import tokenize
from dataclasses import dataclass, field as dfield
from typing import Callable, List, Optional

from engine.h import Cell, assume, check, cover, fail, ref_slice_indices

try:
    from crosshair.core import deep_realize
    from crosshair.core_and_libs import NoTracing
    from crosshair.statespace import optional_context_statespace
except Exception:  # pragma: no cover
    optional_context_statespace = lambda: None  # noqa: E731

import fst
from fst import FST, NodeError
from fst import fst_core

EXPECTED_RAISES = (IndexError, ValueError, NodeError, NotImplementedError, SyntaxError, RuntimeError)


def in_sym() -> bool:
    return optional_context_statespace() is not None


def untraced():
    return NoTracing() if in_sym() else contextlib.nullcontext()


def R(x):
    return deep_realize(x) if in_sym() else x


def pin(x, lo: int, hi: int) -> int:
    """Case-split a symbolic int over [lo, hi] and return the concrete value of this path."""
    for i in range(lo, hi + 1):
        if x == i:
            return i
    fail('harness.pin_out_of_range', (lo, hi))


def reset_globals():
    fst_core._MODIFYING.clear()


# ----------------------------------------------------------------------------------------------------------------------
# concrete oracles (run untraced on concrete data)

_POS = ('lineno', 'col_offset', 'end_lineno', 'end_col_offset')


def realize_tree(a: ast.AST) -> None:
    if not in_sym():
        return
    for n in ast.walk(a):
        for k in _POS:
            v = getattr(n, k, None)
            if v is not None and type(v) is not int:
                setattr(n, k, deep_realize(v))


def dump(a, attrs=False) -> str:
    return ast.dump(a, include_attributes=attrs) if isinstance(a, ast.AST) else repr(a)


def o_parse(root: FST, sig: str, mode: str = 'exec'):
    """C01 oracle: the source parsed from scratch by CPython equals the live tree incl. every position."""
    src = root.src
    try:
        t = ast.parse(src, mode='exec' if mode == 'stmt' else mode)
    except SyntaxError as e:
        fail(sig + '.src_unparsable', (src, str(e)))
    if mode == 'eval':
        t = t.body
    elif mode == 'stmt':      # a standalone statement root
        check(len(t.body) == 1, sig + '.not_a_single_statement', (src,))
        t = t.body[0]
    realize_tree(root.a)
    d1 = ast.dump(t, include_attributes=True)
    d2 = ast.dump(root.a, include_attributes=True)
    if d1 != d2:
        if ast.dump(t) != ast.dump(root.a):
            fail(sig + '.tree_structure_differs_from_parse', (src, ast.dump(root.a)[:600], ast.dump(t)[:600]))
        fail(sig + '.tree_positions_differ_from_parse', (src, _first_diff(d1, d2)))
    return t


def _first_diff(a: str, b: str):
    i = 0
    while i < min(len(a), len(b)) and a[i] == b[i]:
        i += 1
    return (a[max(0, i - 120): i + 80], b[max(0, i - 120): i + 80])


def links_ok(root: FST, sig: str):
    """parent / pfield / .f / .a links agree with a fresh walk of the AST."""
    with untraced():
        _links_ok(root, sig)


def _links_ok(root: FST, sig: str):
    for n in ast.walk(root.a):
        f = getattr(n, 'f', None)
        check(f is not None and f.a is n, sig + '.ast_without_fst', type(n).__name__)
        for name, val in ast.iter_fields(n):
            kids = val if isinstance(val, list) else [val]
            for i, k in enumerate(kids):
                if isinstance(k, ast.AST):
                    kf = getattr(k, 'f', None)
                    check(kf is not None and kf.parent is f, sig + '.bad_parent_link', (type(n).__name__, name, i))
                    pf = kf.pfield
                    pname, pidx = R(pf.name), R(pf.idx)
                    check(pname == name and pidx == (i if isinstance(val, list) else None), sig + '.bad_pfield',
                          (type(n).__name__, name, i, (pname, pidx)))
                    check(kf.root is root, sig + '.bad_root', (type(n).__name__, name, i))


def tokens(src: str):
    out = []
    try:
        for t in tokenize.generate_tokens(io.StringIO(src).readline):
            if t.type in (tokenize.NL, tokenize.NEWLINE, tokenize.INDENT, tokenize.DEDENT, tokenize.ENDMARKER):
                continue
            out.append((tokenize.tok_name[t.type], t.string))
    except (tokenize.TokenError, IndentationError, SyntaxError):
        return None
    return out


def comments(src: str):
    t = tokens(src)
    return None if t is None else sorted(s for k, s in t if k == 'COMMENT')


# ----------------------------------------------------------------------------------------------------------------------
# carriers

@dataclass
class Carrier:
    id: str
    src: str                       # formatted carrier program (module)
    path: list                     # [(field, idx|None), ...] from Module to the container node
    field: str                     # field (may be virtual) the edits target
    tmpl: str                      # same construct with '{}' where the elements go (rendered + parsed by CPython only)
    old: List[str]                 # source of each existing element (hand-written; validated against src at import)
    new: List[str]                 # sources of new elements as written inside the template
    sep: str = ', '                # separator used when handing several new elements to pfst as one code string
    tsep: Optional[str] = None     # separator inside the template (default: sep)
    tmpl0: Optional[str] = None    # rendering with zero elements when the template itself cannot express it
    tindent: str = ''              # indentation added to continuation lines of multi-line elements inside the template
    new_one: Optional[List[str]] = None  # code for single-element puts when it differs from the slice form (e.g. decorator w/o '@')
    elems: Optional[Callable] = None     # ast node -> list of element dump strings (default: dumps of getattr(node, field))
    blank: Optional[Callable] = None     # ast node -> None, removes the elements (for "rest of tree unchanged")
    code_suffix: str = ''          # appended to a multi-element code string handed to pfst (Assign targets slice: trailing ' =')
    elem_ops: bool = True          # element-level replace()/remove() are equivalent entry points (not for virtual / str fields)
    refuse_re: Optional[str] = None      # documented refusal (message regex) that is legitimate although the result would be valid
    tags: tuple = ()

    def locate_ast(self, tree: ast.AST) -> ast.AST:
        n = tree
        for fld, idx in self.path:
            n = getattr(n, fld)
            if idx is not None:
                n = n[idx]
        return n

    def locate(self, root: FST) -> FST:
        return self.locate_ast(root.a).f

    def get_elems(self, node: ast.AST) -> List[str]:
        if self.elems:
            return self.elems(node)
        return [dump(x) for x in getattr(node, self.field)]

    def do_blank(self, node: ast.AST) -> None:
        if self.blank:
            self.blank(node)
        else:
            setattr(node, self.field, [])

    def code(self, k: int) -> str:
        return self.sep.join(self.new[:k]) + self.code_suffix

    def code_one(self) -> str:
        return (self.new_one or self.new)[0]

    def render(self, srcs: List[str]) -> str:
        if not srcs and self.tmpl0 is not None:
            return self.tmpl0
        return self.tmpl.format((self.sep if self.tsep is None else self.tsep).join(e.replace('\n', '\n' + self.tindent) for e in srcs))

    def parse_elems(self, srcs: List[str]) -> Optional[List[str]]:
        """Element dumps of the template rendered with `srcs` as CPython parses it; None if that is not valid Python."""
        try:
            t = ast.parse(self.render(srcs))
        except SyntaxError:
            return None
        try:
            return self.get_elems(self.locate_ast(t))
        except (AttributeError, IndexError):
            return None


def _dict_elems(n):
    return [('**' if k is None else dump(k)) + ':' + dump(v) for k, v in zip(n.keys, n.values)]


def _dict_blank(n):
    n.keys = []
    n.values = []


def _set_elems(n):
    if isinstance(n, ast.Call) and dump(n) == "Call(func=Name(id='set', ctx=Load()), args=[], keywords=[])":
        return []
    e = [dump(x) for x in n.elts]
    return [] if e in (["Starred(value=Tuple(elts=[], ctx=Load()), ctx=Load())"], ["Starred(value=List(elts=[], ctx=Load()), ctx=Load())"]) else e


def _cmp_elems(n):  # operands only: which neighbouring operator goes with an operand is the documented op_side choice
    if not isinstance(n, ast.Compare):
        return [dump(n)]
    return [dump(n.left)] + [dump(c) for c in n.comparators]


def _cmp_blank(n):
    n.left = ast.Constant(0)
    n.ops = []
    n.comparators = []


def _args_elems(n):  # Call._args / ClassDef._bases: positional + keywords merged in source order
    items = [(a.lineno, a.col_offset, dump(a)) for a in (n.args if hasattr(n, 'args') else n.bases)]
    items += [(k.value.lineno, k.value.col_offset, dump(k)) for k in n.keywords]
    return [d for _, _, d in sorted(items)]


def _args_blank(n):
    if hasattr(n, 'args'):
        n.args = []
    else:
        n.bases = []
    n.keywords = []


def _is_doc(b):
    return b and isinstance(b[0], ast.Expr) and isinstance(b[0].value, ast.Constant) and isinstance(b[0].value.value, str)


def _body_elems(n):  # virtual _body: body without docstring
    return [dump(x) for x in (n.body[1:] if _is_doc(n.body) else n.body)]


def _body_blank(n):
    n.body = n.body[:1] if _is_doc(n.body) else []


def _single_or(fieldname, cls):
    """Containers which normalise to their only element (BoolOp, MatchOr)."""
    def elems(n):
        return [dump(x) for x in getattr(n, fieldname)] if isinstance(n, cls) else [dump(n)]
    return elems


L0 = [('body', 0)]
V0 = [('body', 0), ('value', None)]
CARRIERS: List[Carrier] = [
    Carrier('list4c', 'x = [a,  # ca\n     b, (c),\n     d  # cd\n    ]\ny = 1\n', V0, 'elts', 'x = [{}]\ny = 1\n', ['a', 'b', 'c', 'd'], ['p', 'q + 1']),
    Carrier('list0', 'x = [ ]  # c\n', V0, 'elts', 'x = [{}]\n', [], ['p', '(q)']),
    Carrier('tuple3', 'f(0); x = a, b , c # t\nz\n', [('body', 1), ('value', None)], 'elts', 'f(0); x = ({},)\nz\n', ['a', 'b', 'c'], ['p', '*q'], tmpl0='f(0); x = ()\nz\n'),
    Carrier('tuple3p', 'x = (a,\n     b,\n     c,\n)\n', V0, 'elts', 'x = ({},)\n', ['a', 'b', 'c'], ['p', 'q'], tmpl0='x = ()\n'),
    Carrier('set3', 'x = {a, b,\\\n c}\n', V0, 'elts', 'x = {{*(), {}}}\n', ['a', 'b', 'c'], ['p', 'q'],
            elems=lambda n: [e for e in _set_elems(n) if e != "Starred(value=Tuple(elts=[], ctx=Load()), ctx=Load())"], blank=lambda n: setattr(n, 'elts', [])),
    Carrier('call4', 'r = f(a, *b, c,\n      d)  # call\n', V0, 'args', 'r = f({})\n', ['a', '*b', 'c', 'd'], ['p', '*q']),
    Carrier('callargs', 'r = f(a, *b, k=v,\n      **d)  # call\n', V0, '_args', 'r = f({})\n', ['a', '*b', 'k=v', '**d'], ['w=1', '**q'],
            elems=_args_elems, blank=_args_blank, elem_ops=False),
    Carrier('dict3', 'd = {a: 1,  # first\n     **b,\n     c: 3}\n', V0, '_all', 'd = {{{}}}\n', ['a: 1', '**b', 'c: 3'], ['p: 0', '**q'],
            elems=_dict_elems, blank=_dict_blank, elem_ops=False),
    Carrier('del3', 'if t:\n    del a, b[0], c.d  # del\n', [('body', 0), ('body', 0)], 'targets', 'if t:\n    del {}\n', ['a', 'b[0]', 'c.d'], ['p', 'q.r']),
    Carrier('assign3', 'a = b = \\\n  c = v  # asg\n', L0, 'targets', '{} = v\n', ['a', 'b', 'c'], ['p', 'q.r'], sep=' = ', code_suffix=' ='),
    Carrier('global3', 'def f():\n    global a, b, \\\n        c  # g\n', [('body', 0), ('body', 0)], 'names', 'def f():\n    global {}\n', ['a', 'b', 'c'], ['p', 'q'], elem_ops=False),
    Carrier('global5', 'def f():\n    global a, b, c, \\\n        d, e  # g\n', [('body', 0), ('body', 0)], 'names', 'def f():\n    global {}\n', ['a', 'b', 'c', 'd', 'e'], ['p', 'q'], elem_ops=False),
    Carrier('import3', 'import a, b.c as d, e  # imp\n', L0, 'names', 'import {}\n', ['a', 'b.c as d', 'e'], ['p', 'q.r as s']),
    Carrier('fromimp3', 'from m import (a,\n    b as c,  # c\n    d)\n', L0, 'names', 'from m import ({})\n', ['a', 'b as c', 'd'], ['p', 'q as s']),
    Carrier('boolop3', 'x = a and b \\\n    and c\n', V0, 'values', 'x = ({})\n', ['a', 'b', 'c'], ['p', 'q'], sep=' and ',
            elems=_single_or('values', ast.BoolOp), blank=lambda n: setattr(n, 'values', []), tmpl0='x = \n'),
    Carrier('compare3', 'x = a < b == (c) \\\n  is not d\n', V0, '_all', 'x = ({})\n', ['a', 'b', 'c', 'd'], ['p', 'q'], sep=' > ',
            elems=_cmp_elems, blank=_cmp_blank, refuse_re="requires an 'op'", elem_ops=False, tmpl0='x = \n'),
    Carrier('ifbody3', 'if t:  # hdr\n    a = 1  # ca\n\n    # pre b\n    b = 2\n    c = 3; d = 4\nz = 0\n', L0, 'body',
            'if t:\n    {}\nz = 0\n', ['a = 1', 'b = 2', 'c = 3', 'd = 4'], ['p = 5', 'q(6)'], sep='\n', tsep='\n    '),
    Carrier('strstmts', 'if t:\n    b\"\"\"l1\n  l2\"\"\"\n    a = 1\n    \"\"\"s1\n      s2\"\"\"  # cs\nz = 0\n', L0, 'body',
            'if t:\n    {}\nz = 0\n', ['b\"\"\"l1\n  l2\"\"\"', 'a = 1', '\"\"\"s1\n      s2\"\"\"'], ['p = 5', 'q(6)'], sep='\n', tsep='\n    '),
    Carrier('defdoc', 'class c:\n    def f(self):\n        \"\"\"doc\n        more\"\"\"\n        return 1\n    x = 2\n', L0, 'body',
            'class c:\n    {}\n', ['def f(self):\n    \"\"\"doc\n    more\"\"\"\n    return 1', 'x = 2'], ['p = 5', 'q(6)'], sep='\n', tsep='\n    ', tindent='    '),
    Carrier('orelse2', 'if x:\n    pass\nelse:  # e\n    y = 0\n    z = 0\nw = 1\n', L0, 'orelse', 'if x:\n    pass\nelse:\n    {}\nw = 1\n', ['y = 0', 'z = 0'],
            ['if a:\n    b = 1', 'c = 2'], sep='\n', tsep='\n    ', tindent='    ', tmpl0='if x:\n    pass\nw = 1\n'),
    Carrier('elifchain', 'if x:\n    pass\nelif y:  # e\n    u = 0\nw = 1\n', L0, 'orelse', 'if x:\n    pass\nelse:\n    {}\nw = 1\n', ['if y:\n    u = 0'],
            ['if a:\n    b = 1', 'c = 2'], sep='\n', tsep='\n    ', tindent='    ', tmpl0='if x:\n    pass\nw = 1\n'),
    Carrier('ifinline', 'if a: b\nelse: e\nz = 0\n', L0, 'body', 'if a:\n    {}\nelse: e\nz = 0\n', ['b'], ['p = 5', 'q(6)'], sep='\n', tsep='\n    '),
    Carrier('bscomment', 'a = 1  # see C:\\tmp\\\nb = 2\n# own line \\\nc = 3\nd = 4  # end\n', [], 'body', '{}\n', ['a = 1', 'b = 2', 'c = 3', 'd = 4'], ['p = 5', 'q(6)'], sep='\n'),
    Carrier('modbody', '# top\na = 1\n\n\ndef f(): pass\n\n# mid\nb = 2  # cb\n', [], 'body', '{}\n', ['a = 1', 'def f(): pass', 'b = 2'], ['p = 5', 'q(6)'], sep='\n'),
    Carrier('funcbody', 'def f():\n    """doc"""\n    a = 1\n    # c\n    b = 2\n', L0, '_body',
            'def f():\n    """doc"""\n    {}\n', ['a = 1', 'b = 2'], ['p = 5', 'q(6)'], sep='\n', tsep='\n    ', elems=_body_elems, blank=_body_blank, elem_ops=False),
    Carrier('classbases', 'class C(A, *B, metaclass=M,\n        **kw):  # cls\n    pass\n', L0, '_bases', 'class C({}):\n    pass\n',
            ['A', '*B', 'metaclass=M', '**kw'], ['w=1', '**q'], elems=_args_elems, blank=_args_blank, elem_ops=False),
    Carrier('decos', '@a\n@b(1)  # cb\n# between\n@c.d\ndef f(): pass\n', L0, 'decorator_list', '{}\ndef f(): pass\n', ['@a', '@b(1)', '@c.d'], ['@p', '@q(2)'],
            sep='\n', new_one=['p']),
    Carrier('withitems', 'with a as x, b, (c) as z:  # w\n    pass\n', L0, 'items', 'with {}:\n    pass\n', ['a as x', 'b', '(c) as z'], ['p as y', 'q']),
    Carrier('matchseq', 'match v:\n    case [a, 1, *r]:  # m\n        pass\n', [('body', 0), ('cases', 0), ('pattern', None)], 'patterns',
            'match v:\n    case [{}]:\n        pass\n', ['a', '1', '*r'], ['p', '2']),
    Carrier('matchor', 'match v:\n    case 1 | (2) | \\\n      3:\n        pass\n', [('body', 0), ('cases', 0), ('pattern', None)], 'patterns',
            'match v:\n    case ({}):\n        pass\n', ['1', '2', '3'], ['4', '5'], sep=' | ', elems=_single_or('patterns', ast.MatchOr),
            blank=lambda n: setattr(n, 'patterns', []), tmpl0='x = \n'),
    Carrier('compifs', 'x = [i for i in z if a if (b)\n     if c]\n', [('body', 0), ('value', None), ('generators', 0)], 'ifs',
            'x = [i for i in z {}]\n', ['if a', 'if b', 'if c'], ['if p', 'if q'], sep=' ', new_one=['p']),
    Carrier('generators', 'x = [i for i in a for j in b  # c\n     for k in c]\n', V0, 'generators',
            'x = [i {}]\n', ['for i in a', 'for j in b', 'for k in c'], ['for p in q', 'for r in s if t'], sep=' '),
    Carrier('typeparams', 'def f[T, *U, **V](): pass\n', L0, 'type_params', 'def f[{}](): pass\n', ['T', '*U', '**V'], ['P', 'Q: int'], tmpl0='def f(): pass\n'),
    Carrier('handlers', 'try:\n    pass\nexcept A:  # ca\n    pass\nexcept (B, C) as e:\n    pass\n\nexcept D:\n    pass\n', L0, 'handlers',
            'try:\n    pass\n{}\n', ['except A:\n    pass', 'except (B, C) as e:\n    pass', 'except D:\n    pass'],
            ['except P:\n    pass', 'except Q as q:\n    pass'], sep='\n'),
    Carrier('cases', 'match v:\n    case 1:  # c1\n        pass\n    case 2: pass\n    # pre 3\n    case _:\n        pass\n', L0, 'cases',
            'match v:\n    {}\n', ['case 1:\n    pass', 'case 2: pass', 'case _:\n    pass'], ['case 7:\n    pass', 'case [8]:\n    pass'],
            sep='\n', tsep='\n    ', tindent='    '),
    # the REAL list fields of a Call whose source interleaves them: a starred positional after a keyword, a keyword before a starred
    Carrier('callreal_args', 'r = f(a, x=1, *b)  # call\n', V0, 'args', 'r = f({}, x=1)\n', ['a', '*b'], ['p', '*q'], tmpl0='r = f(x=1)\n', refuse_re=r"try the '_args' field|at this location \(after keywords\)"),
    Carrier('callreal_kws', 'r = f(x=1, *b, y=2)  # call\n', V0, 'keywords', 'r = f(*b, {})\n', ['x=1', 'y=2'], ['z=3', '**q'], tmpl0='r = f(*b)\n', refuse_re=r"try the '_args' field"),
    Carrier('callargs2', 'r = f(a, x=1, *b, y=2)  # call\n', V0, '_args', 'r = f({})\n', ['a', 'x=1', '*b', 'y=2'], ['c', 'z=3'],
            elems=_args_elems, blank=_args_blank, elem_ops=False),
    Carrier('callgen', 'r = f(i for i in x)  # g\n', V0, '_args', 'r = f({})\n', ['(i for i in x)'], ['w=1', '**q'], elems=_args_elems, blank=_args_blank, elem_ops=False),
    Carrier('list_hash', 'x = [\n    a,  # ca\n    "c#d",  # cc\n]\ny = 1\n', V0, 'elts', 'x = [{}]\ny = 1\n', ['a', '"c#d"'], ['p', 'f"{q:#x}"']),
    # handlers inside an indented block with comments above them; names of a parenthesised from-import with comments between; type parameters with comments
    Carrier('handlers_ind', 'if 1:\n    try:\n        pass\n    except A: pass\n    # pre b\n    except B: pass\n    except C: pass\n', [('body', 0), ('body', 0)], 'handlers',
            'if 1:\n    try:\n        pass\n    {}\n', ['except A: pass', 'except B: pass', 'except C: pass'], ['except P:\n    pass', 'except Q as q:\n    pass'],
            sep='\n', tsep='\n    ', tindent='    '),
    Carrier('fromimp_c', 'from m import (a, # ca\n  b as x, # cb\n  c)\n', L0, 'names', 'from m import ({})\n', ['a', 'b as x', 'c'], ['p', 'q as s']),
    Carrier('typeparams_c', 'def f[T, # ca\n  *U, # cb\n  **V](): pass\n', L0, 'type_params', 'def f[{}](): pass\n', ['T', '*U', '**V'], ['P', 'Q: int'], tmpl0='def f(): pass\n'),
    # a block at the very end of a file without a final newline
    Carrier('ifbody_eof', 'if 1:\n a\n b', L0, 'body', 'if 1:\n {}', ['a', 'b'], ['p = 5', 'q(6)'], sep='\n', tsep='\n '),
    Carrier('orelse_cmt', 'if x:\n    a\n    # about a\nelse:\n    b\nc\n', L0, 'orelse', 'if x:\n    a\nelse:\n    {}\nc\n', ['b'], ['if p:\n    q = 1', 'r = 2'],
            sep='\n', tsep='\n    ', tindent='    ', tmpl0='if x:\n    a\nc\n'),
    # replacements with the SAME UTF-8 length as what they replace but another character count (é -> pq), and nodes after them on the line
    Carrier('uni_targets', 'é = ñ = [x, (y), ü]  # ç\n', L0, 'targets', '{} = [x, (y), ü]\n', ['é', 'ñ'], ['pq', 'rs'], sep=' = ', code_suffix=' =', tags=('utf8',)),
    Carrier('uni_samebytes', 'w = [é, "ñ", (b), ü]  # ç\n', V0, 'elts', 'w = [{}]\n', ['é', '"ñ"', '(b)', 'ü'], ['pq', 'r.s'], tags=('utf8',)),
    Carrier('uni_list', 'ü = [é,  # ça\n     "ñ", b, 𝒳]\n', V0, 'elts', 'ü = [{}]\n', ['é', '"ñ"', 'b', '𝒳'], ['π', '"ж"'], tags=('utf8',)),
]
CARRIER = {c.id: c for c in CARRIERS}


def _validate_carriers():
    for c in CARRIERS:
        e1 = c.get_elems(c.locate_ast(ast.parse(c.src)))
        e2 = c.parse_elems(c.old)
        assert e1 == e2, ('carrier self-check failed', c.id, e1, e2)
        assert c.parse_elems(c.old + c.new) is not None or c.id in ('callargs', 'callargs2', 'callgen', 'classbases'), ('new elems do not parse', c.id)


_validate_carriers()


class Ctx:
    """One carrier instantiated: live FST + CPython's view of the original source."""

    def __init__(self, c: Carrier):
        self.c = c
        with untraced():
            self.root = FST(c.src, 'exec')
            self.src0 = c.src
            self.old = list(c.old)
            self.dump0 = ast.dump(self.root.a, include_attributes=True)
            self.cont = c.locate(self.root)
            reset_globals()
        self.n = len(self.old)

    def rest_dump(self, tree: ast.AST) -> str:
        self.c.do_blank(self.c.locate_ast(tree))
        return ast.dump(tree)

    def check_after(self, exp_srcs: List[str], sig: str, olist=True):
        """After a successful edit: O-parse (C01) and O-list (C03): the container equals what CPython parses from the
        independently rendered expected element list, and nothing else in the tree changed."""
        with untraced():
            root = self.root
            t = o_parse(root, sig)
            if olist:
                expected = self.c.parse_elems(exp_srcs)
                check(expected is not None, sig + '.invalid_result_accepted', (root.src, exp_srcs))
                try:
                    got = self.c.get_elems(self.c.locate_ast(t))
                except (AttributeError, IndexError) as e:
                    fail(sig + '.container_gone', (root.src, repr(e)))
                check(got == expected, sig + '.container_not_list_semantics', (root.src, got, expected))
                r_after = self.rest_dump(t)
                r_before = self.rest_dump(ast.parse(self.src0))
                if r_after != r_before:
                    # containers which legitimately collapse to their single element (BoolOp/MatchOr/Compare of one operand)
                    exp_tree = ast.parse(self.c.render(exp_srcs))
                    check(ast.dump(exp_tree) == ast.dump(ast.parse(root.src)), sig + '.rest_of_tree_changed',
                          (root.src, _first_diff(r_before, r_after)))
            links_ok(root, sig)

    def check_unchanged(self, sig: str):
        """After a raise (C12): source and tree exactly as before, registry empty."""
        with untraced():
            check(self.root.src == self.src0, sig + '.src_changed_by_failed_edit', (self.src0, self.root.src))
            realize_tree(self.root.a)
            d = ast.dump(self.root.a, include_attributes=True)
            check(d == self.dump0, sig + '.tree_changed_by_failed_edit', _first_diff(self.dump0, d))
            check(not fst_core._MODIFYING, sig + '.modification_lock_leaked', len(fst_core._MODIFYING))
            links_ok(self.root, sig)

    def valid(self, exp_srcs: List[str]) -> bool:
        """Is the list-semantics result valid Python for this container (judged by CPython on a fresh rendering)?"""
        return self.c.parse_elems(exp_srcs) is not None


# ----------------------------------------------------------------------------------------------------------------------
# edit operations with symbolic ints. Each returns (expected element SOURCES | None if Python semantics say IndexError,
# thunk performing the edit through one public entry point).

def ref_index(n: int, idx):
    """Python list index -> position or None (IndexError), pinned."""
    if idx < -n or idx >= n:
        return None
    return pin(idx if idx >= 0 else idx + n, 0, max(0, n - 1))


def ref_insert_pos(n: int, idx):
    if idx < 0:
        idx = idx + n
        if idx < 0:
            idx = 0
    elif idx > n:
        idx = n
    return pin(idx, 0, n)


def ref_slice(n: int, start, stop):
    s, e = ref_slice_indices(n, start, stop)
    return pin(s, 0, n), pin(e, 0, n)


def view_of(cont: FST, fld: str):
    return getattr(cont, fld)


OPS = {}


def op(name):
    def deco(f):
        OPS[name] = f
        return f
    return deco


@op('put_slice')
def _op_put_slice(x: Ctx, k, a, b, c, d):
    s, e = ref_slice(x.n, a, b)
    exp = None if e < s else x.old[:s] + x.c.new[:k] + x.old[e:]
    return exp, lambda: x.cont.put_slice(x.c.code(k) if k else None, a, b, x.c.field)


@op('put_slice_end')
def _op_put_slice_end(x: Ctx, k, a, b, c, d):
    s, e = ref_slice(x.n, a, x.n)
    exp = None if e < s else x.old[:s] + x.c.new[:k] + x.old[e:]
    return exp, lambda: x.cont.put_slice(x.c.code(k) if k else None, a, 'end', x.c.field)


@op('view_setslice')
def _op_view_setslice(x: Ctx, k, a, b, c, d):
    s, e = ref_slice(x.n, a, b)
    exp = None if e < s else x.old[:s] + x.c.new[:k] + x.old[e:]

    def run():
        view_of(x.cont, x.c.field)[a:b] = x.c.code(k) if k else None
    return exp, run


@op('view_delslice')
def _op_view_delslice(x: Ctx, k, a, b, c, d):
    s, e = ref_slice(x.n, a, b)
    exp = None if e < s else x.old[:s] + x.old[e:]

    def run():
        del view_of(x.cont, x.c.field)[a:b]
    return exp, run


@op('put_one')
def _op_put_one(x: Ctx, k, a, b, c, d):
    i = ref_index(x.n, a)
    exp = None if i is None else x.old[:i] + x.c.new[:1] + x.old[i + 1:]
    return exp, lambda: x.cont.put(x.c.code_one(), a, x.c.field)


@op('view_setitem')
def _op_view_setitem(x: Ctx, k, a, b, c, d):
    i = ref_index(x.n, a)
    exp = None if i is None else x.old[:i] + x.c.new[:1] + x.old[i + 1:]

    def run():
        view_of(x.cont, x.c.field)[a] = x.c.code_one()
    return exp, run


@op('view_delitem')
def _op_view_delitem(x: Ctx, k, a, b, c, d):
    i = ref_index(x.n, a)
    exp = None if i is None else x.old[:i] + x.old[i + 1:]

    def run():
        del view_of(x.cont, x.c.field)[a]
    return exp, run


@op('insert')
def _op_insert(x: Ctx, k, a, b, c, d):
    i = ref_insert_pos(x.n, a)
    exp = x.old[:i] + x.c.new[:1] + x.old[i:]
    return exp, lambda: x.cont.insert(x.c.code_one(), a, x.c.field)


@op('subview')
def _op_subview(x: Ctx, k, a, b, c, d):
    """view[a:b].<method c>(code, idx d): the sub-view arithmetic in view.py + healing of the view's own bounds."""
    s, e = ref_slice(x.n, a, b)
    if e < s:
        return None, lambda: view_of(x.cont, x.c.field)[a:b]
    sub = x.old[s:e]
    assume(0 <= c <= 6)
    m = pin(c, 0, 6)
    new1 = x.c.new[:1]
    newk = x.c.new[:k]
    if m == 0:      # insert(code, idx)
        i = ref_insert_pos(len(sub), d)
        nsub = sub[:i] + new1 + sub[i:]
    else:
        assume(d == 0)
        if m == 1:    # append
            nsub = sub + new1
        elif m == 2:    # extend
            nsub = sub + newk
        elif m == 3:    # prepend
            nsub = new1 + sub
        elif m == 4:    # prextend
            nsub = newk + sub
        elif m == 5:    # replace(code, one=False)
            nsub = newk
        else:           # remove
            nsub = []
    exp = x.old[:s] + nsub + x.old[e:]

    def run():
        v = view_of(x.cont, x.c.field)[a:b]
        code1, codek = x.c.code_one(), (x.c.code(k) if k else None)
        if m == 0:
            v.insert(code1, d)
        elif m == 1:
            v.append(code1)
        elif m == 2:
            v.extend(codek)
        elif m == 3:
            v.prepend(code1)
        elif m == 4:
            v.prextend(codek)
        elif m == 5:
            v.replace(codek, one=False)
        else:
            v.remove()
        # the view must now denote exactly the edited sub-list (self-healing indices, C02)
        vs, ve = v.start, v.stop
        with untraced():
            vs, ve = R(vs), R(ve)
            check((vs, ve) == (s, s + len(nsub)), 'subview.view_bounds_wrong_after_edit', (m, (s, e), (vs, ve), len(nsub)))
    return exp, run


@op('elem_remove')
def _op_elem_remove(x: Ctx, k, a, b, c, d):
    i = ref_index(x.n, a)
    exp = None if i is None else x.old[:i] + x.old[i + 1:]

    def run():
        e = view_of(x.cont, x.c.field)[a]
        e.remove()
    return exp, run


@op('elem_replace')
def _op_elem_replace(x: Ctx, k, a, b, c, d):
    i = ref_index(x.n, a)
    exp = None if i is None else x.old[:i] + x.c.new[:1] + x.old[i + 1:]

    def run():
        e = view_of(x.cont, x.c.field)[a]
        e.replace(x.c.code_one())
    return exp, run


USES = {'put_slice': 2, 'put_slice_end': 1, 'view_setslice': 2, 'view_delslice': 2, 'put_one': 1, 'view_setitem': 1,
        'view_delitem': 1, 'insert': 1, 'subview': 4, 'elem_remove': 1, 'elem_replace': 1}
OPTS = dict(norm=True)   # the properties are stated "with parenthesization and normalization enabled"


def make_edit_fn(cid: str, opname: str, k: int, mode: str):
    """mode: 'c03' (O-list + O-parse + refusal legitimacy), 'c01' (O-parse only)"""
    c = CARRIER[cid]
    nuse = USES[opname]

    def fn(a: int, b: int, c_: int, d: int):
        for i, v in enumerate((a, b, c_, d)):
            if i >= nuse:
                assume(v == 0)
        x = Ctx(c)
        exp, run = OPS[opname](x, k, a, b, c_, d)
        sig = f'{cid}.{opname}[{k}]'
        try:
            with FST.options(**OPTS):
                run()
        except EXPECTED_RAISES as e:
            ename = type(e).__name__
            x.check_unchanged(sig + '.raise')
            if exp is None:
                check(ename == 'IndexError', sig + '.wrong_exception_for_bad_index', ename)
                cover('raise.index')
            elif ename == 'NotImplementedError':
                cover('raise.notimpl')
            elif c.refuse_re and re.search(c.refuse_re, str(e)):
                cover('raise.documented')
            else:
                with untraced():
                    check(not x.valid(exp), sig + '.valid_request_refused', (ename, str(e)[:200], exp))
                cover('raise.legit')
            return
        check(exp is not None, sig + '.bad_index_accepted', x.root.src)
        x.check_after(exp, sig, olist=(mode != 'c01'))
        cover('ok')
    fn.__name__ = f'edit_{cid}_{opname}_{k}'
    return fn


FN_EDIT = ['fst.fst.FST.put_slice', 'fst.fst.FST.put', 'fst.fst.FST.insert', 'fst.view.FSTView.__setitem__', 'fst.view.FSTView.__delitem__',
           'fst.view.FSTView._fixup_item_indices', 'fst.view.FSTView._base_indices', 'fst.view.FSTView.insert',
           'fst.fst_misc.fixup_slice_indices', 'fst.fst_misc.fixup_one_index', 'fst.fst_put_slice._put_slice', 'fst.fst_put_one._put_one',
           'fst.fst_core._put_src', 'fst.fst_core._offset']


def c03_cells():
    cells = []
    quick_carriers = ['list4c', 'tuple3', 'dict3', 'ifbody3', 'callargs', 'callargs2', 'callreal_args', 'callreal_kws', 'global3', 'orelse2', 'elifchain']
    for c in CARRIERS:
        for opname in OPS:
            if opname.startswith('elem_') and not c.elem_ops:
                continue
            ks = [0, 1, 2] if opname in ('put_slice', 'view_setslice') else [2] if opname == 'subview' else [1]
            if opname == 'put_slice_end':
                ks = [1]
            for k in ks:
                quick = c.id in quick_carriers and (opname in ('put_slice', 'subview', 'view_setitem', 'insert') and k in (1, 2)
                                                    or opname == 'view_delslice')
                cells.append(Cell(f'P1.{c.id}.{opname}[{k}]', make_edit_fn(c.id, opname, k, 'c03'), 'P', FN_EDIT,
                                  f'carrier {c.id} ({len(c.src)} chars, field {c.field}); op {opname} with {k} new element(s); '
                                  f'{USES[opname]} symbolic int parameter(s) over all of Z',
                                  tier='quick' if quick else 'thorough', budget=240, per_path=60,
                                  out='programs other than this carrier; new-code snippets other than ' + repr(c.new),
                                  reset=reset_globals))
    return cells
