"""C09 — replacing an operand never changes how the surrounding expression groups.

P1: for every expression slot of a set of parent programs (every operand of every operator, call function, subscript value,
    attribute base, comprehension parts, lambda/conditional parts, starred and keyword values, await/yield operands,
    statement-level slots, patterns) x ~45 replacement snippets of every expression kind (one-line, multi-line, already
    parenthesised): node.replace(snippet) must yield source which CPython parses to the parent with EXACTLY that replacement
    at that position (reference: the same substitution done on the pure AST), and to the live tree incl. positions.
    A refusal is legitimate only if the substituted AST does not survive ast.unparse -> ast.parse (not valid Python there).
    The slot ordinal and snippet index are finite choice variables (solver-enumerated; the oracle is CPython's parser).
T1: (shared with C01) Unicode re-lettering of replace scripts — the byte/char side of "same position".
"""
import ast
import copy

from engine.h import Cell, assume, check, cover, fail
from harness import pcommon as pc
from harness import tletter

from fst import FST

PROPERTY = 'C09'
THOROUGH_SCALE = 2.0

PARENTS = {
    'arith': 'r = a + b * c ** d - -e // f % g @ h\ns = a << b >> c & d | e ^ ~f\n',
    'logic': 'r = a and b or not c\ns = a < b <= c is not d not in e\nt = a if b else c\nu = lambda p: p\n',
    'calls': 'r = f(a, *b, k=c, **d)\ns = a.b[c](d)[e:f:g]\nt = x[a, b]\nu = (yield a)\nv = await a\n',
    'colls': 'r = [a, *b]\ns = {a: b, **c}\nt = {a, b}\nu = (a, b)\nv = a, b\nw = f"{a!r:>{b}} {c}"\n',
    'comps': 'r = [a for b in c if d if e]\ns = {a: b for c in d}\nt = (a for b in c for d in e)\nu = {a async for b in c}\n',
    'stmts': ('x = y = a\nx += a\nx: a = b\nreturn a\ndel x[a]\nassert a, b\nraise a from b\nfor x in a: pass\nwhile a: pass\nif a: pass\nelif b: pass\n'
              'with a as x, b: pass\n@a\nclass C(a, k=b): pass\ndef f(p=a, *, q: b = c) -> d: pass\nmatch a:\n    case 1 if b: pass\n'),
    'layout': 'r = (a) + (  # c\n    b) * c\ns = f(a,\n      b + c,  # k\n      d)\nt = [a if b\n     else c]\nu = a \\\n  + b\n',
    'tight': 'r = [v[0]for v in x]\ns = a if(c)else b\nt = f()if g()else"s"\nu = (p)in(q)and(w)or[k]\nv = {m:n for m in(o)if(p)}\n',
    'asyncs': 'async def g():\n    async with a: pass\n    async with b as x, c: pass\n    async for y in d: pass\n    with e: pass\n    await f\n',
    'walrus': 'r = (a := b)\nif (n := a) > b: pass\ns = [y := a, y ** 2]\nt = f(x := a)\n',
}
CHILDREN = [
    'n', '1', '"s"', '1.5', 'n.m', 'n.m()', 'n[0]', 'p + q', 'p * q', 'p ** q', 'p | q', '-p', 'not p', '~p', 'p and q', 'p or q', 'p < q', 'p if q else r',
    'lambda: p', 'lambda z: z', '(w := p)', 'p, q', '(p, q)', '[p, q]', '{p: q}', '{p, q}', '[i for i in p]', '(i for i in p)', 'await p', 'yield', 'yield p', 'yield from p',
    '*p', 'f"{p}"', '(p)', '((p + q))', 'p +\\\n q', '(p +\n q)', 'f(p,\n  q)', '[p,\n q]', 'p if q \\\n else r', '- 1', '1 .real', 'p[q:r]', 'p is not q', 'p not in q', '...', 'None', 'b"x"',
    '(p # c\\\n.m)', '(p. # c\\\nm)', '(p.\nm)', "('s'\n't')", '(p  # c\n + q)',
]


def _slots(tree):
    out = []
    for n in ast.walk(tree):
        if isinstance(n, ast.expr) and isinstance(getattr(n, 'ctx', ast.Load()), ast.Load):
            out.append(n)
    return out


def _parent_of(tree, node):
    for p in ast.walk(tree):
        for name, val in ast.iter_fields(p):
            if val is node:
                return p, name, None
            if isinstance(val, list):
                for i, v in enumerate(val):
                    if v is node:
                        return p, name, i
    return None, None, None


def _wrap_stmts(src, key):
    # 'return'/'yield'/'await' need a function for compile(), not for ast.parse(); keep module level (ast.parse accepts them)
    return src


def _mk_replace(key):
    src = PARENTS[key]
    ref0 = ast.parse(src)
    NS = len(_slots(ref0))

    def fn(k: int, c: int):
        assume(0 <= k < NS and 0 <= c < len(CHILDREN))
        kk = pc.pin(k, 0, NS - 1)
        cc = pc.pin(c, 0, len(CHILDREN) - 1)
        child_src = CHILDREN[cc]
        with pc.untraced():
            root = FST(src, 'exec')
            pc.reset_globals()
            tgt_ast = _slots(root.a)[kk]
            tgt = tgt_ast.f
            # reference: same substitution on the pure AST
            ref = ast.parse(src)
            rnode = _slots(ref)[kk]
            rp, rname, ridx = _parent_of(ref, rnode)
            try:
                new = ast.parse(child_src, mode='eval').body if not child_src.startswith('*') else ast.parse(f'[{child_src}]', mode='eval').body.elts[0]
            except SyntaxError:
                new = None
            if new is None and child_src.startswith('yield'):
                new = ast.parse(f'({child_src})', mode='eval').body
            check(new is not None, 'harness.child_does_not_parse', child_src)
            if ridx is None:
                setattr(rp, rname, new)
            else:
                getattr(rp, rname)[ridx] = new
            exp_dump = ast.dump(ref)
            try:
                valid = ast.dump(ast.parse(ast.unparse(ref))) == exp_dump
            except Exception:   # noqa: BLE001
                valid = False
            if isinstance(new, ast.Starred) and not (rname in ('elts', 'args', 'bases') or (isinstance(rp, ast.Subscript) and rname == 'slice')):
                valid = False       # "can't use starred expression here" is a compile-time error which ast.parse does not report
            if isinstance(rp, ast.MatchValue) and not isinstance(new, (ast.Constant, ast.Attribute, ast.UnaryOp, ast.BinOp)):
                valid = False       # "patterns may only match literals and attribute lookups": also reported after parsing
        slot = f'{type(rp).__name__}.{rname}'
        sig = f'replace.{key}.{slot}<-{child_src!r}'
        try:
            with FST.options(**pc.OPTS):
                tgt.replace(child_src)
        except pc.EXPECTED_RAISES as e:
            with pc.untraced():
                check(root.src == src, sig + '.src_changed_by_failed_replace', root.src)
                if isinstance(e, NotImplementedError):
                    cover('raise.notimpl')
                    return
                if isinstance(rp, ast.MatchValue) and child_src.startswith('('):
                    cover('raise.parenthesized_in_pattern')     # documented restriction: no parenthesized value in a pattern expression
                    return
                check(not valid, 'replace.valid_replacement_refused', (key, slot, child_src, type(e).__name__, str(e)[:150]))
            cover('raise')
            return
        with pc.untraced():
            t = pc.o_parse(root, sig)
            got = ast.dump(t)
            if valid:
                check(got == exp_dump, 'replace.grouping_changed', (key, slot, child_src, root.src))
            cover('ok' if valid else 'ok.invalid_by_unparse')
    return fn, NS


def _s_twice_binop(f):
    f.body[0].value.right.replace('b*c')
    f.body[0].value.right.right.replace('p+q')


def _s_call_arg(f):
    f.body[0].value.args[1].replace('x if y else z')
    f.body[0].value.args[1].body.replace('u or v')


def _s_subscript(f):
    f.body[0].value.slice.replace('i, *j')


def _s_ifexp_ml(f):
    f.body[0].value.elts[1].replace('a if b\nelse c')


LETTER = [
    ('binop_twice', 's = "¡" + a  # ¢\n', _s_twice_binop, 'quick'),
    ('call_arg_twice', 'r = f("¡", a, k="¢")  # £\n', _s_call_arg, 'quick'),
    ('subscript_star', 'é = "¡"; x["¢"][a]\n', lambda f: f.body[1].value.slice.replace('i, *j') and None, 'thorough'),
    ('ml_in_list', 'x = ["¡", a,  # ¢\n     "£"]\n', _s_ifexp_ml, 'thorough'),
]

CELLS = []
for _k in PARENTS:
    _fn, _ns = _mk_replace(_k)
    CELLS.append(Cell(f'P1.replace[{_k}]', _fn, 'P',
                      ['fst.fst.FST.replace', 'fst.fst_put_one._put_one', 'fst.fst_put_one._make_exprlike_fst', 'fst.astutil.precedence_require_parens',
                       'fst.astutil.precedence_require_parens_by_type', 'fst.fst_core._is_atom', 'fst.fst_core._is_enclosed_or_line', 'fst.fst_core._is_enclosed_in_parents',
                       'fst.fst_misc._parenthesize_grouping', 'fst.fst_misc._unparenthesize_grouping'],
                      f'parent program {_k} ({_ns} expression slots) x {len(CHILDREN)} replacement snippets; slot ordinal and snippet index are finite choice variables '
                      '(solver-enumerated); reference = same substitution on the pure AST, judged by CPython', tier='quick' if _k in ('arith', 'logic', 'calls', 'layout', 'tight', 'asyncs') else 'thorough',
                      budget=1200, per_path=60, out='parents / snippets outside the tables; pars=False (excluded by the property)', reset=pc.reset_globals))
for _n, _src, _scr, _tier in LETTER:
    CELLS.append(tletter.letter_cell('T1', _n, _src, _scr, tier=_tier))
