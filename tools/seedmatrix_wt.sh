#!/bin/bash
# like seedmatrix.sh but applies each seeded change to a scratch worktree of /repo HEAD (default /tmp/seedwt) and points the check at it with
# PYTHONPATH, so /repo itself stays untouched (usable while other checks run). Build-time convenience, not a registered command.
# usage: seedmatrix_wt.sh <seed-id>:<check>[:cells-regex] ...
WT=${SEEDWT:-/tmp/seedwt}
cd "$(dirname "$0")/.."; mkdir -p /tmp/seedm
[ -d $WT ] || git -C /repo worktree add -q --detach $WT HEAD
git -C $WT checkout -q --detach "$(git -C /repo rev-parse HEAD)"
for spec in "$@"; do
  IFS=: read sid chk cells <<< "$spec"
  git -C $WT checkout -q -- . ; git -C $WT apply /verif/seeded/$sid/patch.diff || { echo "$sid APPLY-FAIL"; continue; }
  t0=$(date +%s)
  if [ -n "$cells" ]; then PYTHONPATH=$WT/src ./check $chk --tier quick --cells "$cells" --no-evidence > /tmp/seedm/$sid.$chk.log 2>&1; else PYTHONPATH=$WT/src ./check $chk --tier quick --no-evidence > /tmp/seedm/$sid.$chk.log 2>&1; fi
  rc=$?; t1=$(date +%s)
  git -C $WT checkout -q -- .
  echo "seed=$sid check=$chk cells=${cells:-ALL} rc=$rc wall=$((t1-t0))s first: $(grep -a -m1 'counterexample' /tmp/seedm/$sid.$chk.log | cut -c1-220)"
done
