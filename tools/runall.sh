#!/bin/bash
# run every registered check of a tier sequentially, collect exit codes and wall times (build-time convenience, not a registered command)
tier=${1:-quick}; shift
ids=${@:-C01 C02 C03 C04 C05 C06 C07 C08 C09 C10 C11 C12 C13 C14 C15 C16 C17 C18 C19 C20}
cd "$(dirname "$0")/.."; mkdir -p /tmp/runall
for id in $ids; do
  t0=$(date +%s)
  ./check $id --tier $tier > /tmp/runall/$id.$tier.log 2>&1; rc=$?
  t1=$(date +%s)
  echo "$id rc=$rc wall=$((t1-t0))s $(grep -a -c '^KNOWN-FINDING' /tmp/runall/$id.$tier.log) known, $(grep -a -c '^INCOMPLETE' /tmp/runall/$id.$tier.log) incomplete, $(grep -a -c '^VIOLATION' /tmp/runall/$id.$tier.log) violations, $(grep -a -c '^HARNESS-ERROR' /tmp/runall/$id.$tier.log) harness errors"
done
