"""Regenerate MANIFEST.json from the table below (kept in one place so it stays valid)."""
import json, os
V = os.path.dirname(os.path.dirname(os.path.abspath(__file__)))
TRUST = ('Trusted base: CrossHair 0.0.110 symbolic models of int/str/list/dict/re + its tracer, z3; CPython ast.parse/tokenize/symtable as leaf oracles. '
         'Refutations do not rely on it: each is re-executed concretely in a fresh interpreter before VIOLATION is printed.')
CHECKS = {}
NA = {}

def chk(pid, text, note, technique, ref):
    CHECKS[pid] = dict(property_id=pid, quick_cmd=f'./check {pid} --tier quick', thorough_cmd=f'./check {pid} --tier thorough',
                       evidence_file=f'evidence/{pid}.json', replay_cmd_template=f'./check {pid} --replay {{path}}', engine='sx',
                       level_claimed=dict(category='model_checking', text=text, design_ref=ref), level_note=note + ' ' + TRUST, technique=technique)

exec(open(os.path.join(V, 'tools', 'manifest_table.py')).read())

m = dict(version=1, setup_cmd='./setup.sh',
         hooks=dict(guard='PFST_VERIF', enable='no source hooks are needed: harnesses import pfst internals directly from /repo/src', baseline_off_cmd='cd /repo && /venv/bin/python -m pytest -ra -q -p no:cacheprovider --timeout=900 --continue-on-collection-errors', source_commits=[], add_only=True),
         engines=[dict(name='sx', path='engine/', serves_properties=sorted(CHECKS), kind_free_text='path-exhaustive symbolic execution of the real pfst code (CrossHair tracer + z3), one process per harness cell, concrete replay of every counterexample')],
         checks=[CHECKS[k] for k in sorted(CHECKS)],
         not_applicable=[dict(property_id=k, reason=v) for k, v in sorted(NA.items())],
         notes='See DESIGN.md. Every verdict is bounded: the bounds of each cell are in evidence/<id>.json (coverage.harnesses[].bounds / outside).')
json.dump(m, open(os.path.join(V, 'MANIFEST.json'), 'w'), indent=1)
print('checks:', sorted(CHECKS), 'n/a:', sorted(NA))
