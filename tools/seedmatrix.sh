#!/bin/bash
# apply each seeded change to /repo, run the listed checks, undo. usage: seedmatrix.sh <seed-id>:<check>[:cells-regex] ...
cd "$(dirname "$0")/.."; mkdir -p /tmp/seedm
for spec in "$@"; do
  IFS=: read sid chk cells <<< "$spec"
  git -C /repo checkout -q -- . ; git -C /repo apply /verif/seeded/$sid/patch.diff || { echo "$sid APPLY-FAIL"; continue; }
  t0=$(date +%s)
  if [ -n "$cells" ]; then ./check $chk --tier quick --cells "$cells" --no-evidence > /tmp/seedm/$sid.$chk.log 2>&1; else ./check $chk --tier quick --no-evidence > /tmp/seedm/$sid.$chk.log 2>&1; fi
  rc=$?; t1=$(date +%s)
  git -C /repo checkout -q -- .
  echo "seed=$sid check=$chk cells=${cells:-ALL} rc=$rc wall=$((t1-t0))s first: $(grep -a -m1 'counterexample' /tmp/seedm/$sid.$chk.log | cut -c1-220)"
done
git -C /repo status --short
