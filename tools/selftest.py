"""Build-time self-test of the machinery (not a registered check): apply each small mutant of selftest/mutants.json to /repo,
run the named check cells, require a replayed VIOLATION (or a pass for mutants marked expect=pass), undo. /repo must be clean."""
import json, os, subprocess, sys, time
V = os.path.dirname(os.path.dirname(os.path.abspath(__file__)))
muts = json.load(open(os.path.join(V, 'selftest', 'mutants.json')))
only = set(sys.argv[1:])
res = []
for m in muts:
    if only and m['id'] not in only:
        continue
    p = os.path.join('/repo', m['file'])
    src = open(p).read()
    if src.count(m['old']) != 1:
        print(f"{m['id']}: PATTERN-NOT-FOUND ({src.count(m['old'])})"); res.append((m['id'], 'pattern')); continue
    open(p, 'w').write(src.replace(m['old'], m['new']))
    t0 = time.time()
    try:
        r = subprocess.run([os.path.join(V, 'check'), m['check'], '--tier', 'thorough', '--cells', m['cells'], '--no-evidence'], capture_output=True, text=True, cwd=V,
                           env=dict(os.environ, VERIF_BUDGET_SCALE='0.5'))
    finally:
        open(p, 'w').write(src)
    viol = 'VIOLATION property=' in r.stdout
    exp = m.get('expect', 'violation')
    ok = (viol and exp == 'violation') or (not viol and r.returncode == 0 and exp == 'pass')
    first = next((l.strip()[:160] for l in r.stdout.splitlines() if 'counterexample' in l), '')
    print(f"{m['id']}: {'OK' if ok else 'MISSED'} rc={r.returncode} {time.time() - t0:.0f}s expect={exp} {first}", flush=True)
    res.append((m['id'], ok))
subprocess.run(['git', '-C', '/repo', 'status', '--short'])
print('selftest:', sum(1 for _, ok in res if ok is True), 'of', len(res), 'as expected')
