chk('C03',
    'Bounded symbolic model checking of the real code. K cells: fixup_one_index / fixup_slice_indices / clip_src_loc / _swizzle_getput_params / validate_put_arglike '
    'agree with Python list semantics for ALL integers (path tree exhausted, no bound on the ints). P cells: put_slice, put, insert, view __setitem__/__delitem__, '
    'sub-view insert/append/extend/prepend/prextend/replace/remove and element replace/remove on 47 carrier containers (incl. the REAL args / keywords fields of calls whose source interleaves them) with every index/bound a symbolic integer over Z; '
    'at each leaf CPython re-parses the result and the container must equal the independently rendered old[:s]+new+old[e:], the rest of the tree unchanged, refusals only when that rendering is invalid Python.',
    'Bounds: carriers and new-code snippets listed in evidence; containers of length <= 5; single edit (histories are C01). Refusals that pfst documents ("try the _args field") are accepted where the carrier says so. One defect fixed (3b501d6). Outside: other programs, longer containers, other element kinds.',
    'symbolic execution (CrossHair+z3) of real index/slice kernels and public edit entry points; path-tree exhaustion over all integers; CPython parse + list semantics as oracle',
    'DESIGN.md section 4 C03')

chk('C01',
    'Bounded symbolic model checking of the real code. K1: the text splice (_put_src/_params_offset) equals an independent splice and UTF-8 byte arithmetic for symbolic code points and all valid coordinates. '
    'T1: _offset on symbolically re-laid-out trees (every column a free integer, order kept) for every tail/head/exclude/self_ setting equals the behaviour its docstring defines. '
    'T2: "re-lettering": for EVERY Unicode scalar >= U+0080 at the marked positions of a carrier, an edit script yields exactly the re-lettering of the CPython-validated marker run (text + every position). '
    'P1/P2: public edits and 2-edit histories on 47 carriers with all indices symbolic over Z; at each leaf CPython re-parses the source and the dump incl. every lineno/col_offset must equal the live tree. '
    'P3: attribute assignment of every primitive field (Constant.value/kind, identifiers, ImportFrom.level) on tight layouts where the new text touches its neighbours.',
    'Bounds: listed carriers/templates/scripts, containers <= 5 elements, histories of <= 2 edits, norm=True. Two defects fixed (ccf7126, 097fd0c); Ellipsis written as a Name listed as known finding (repair blocked by a test). Outside: other programs, longer histories, ASCII substitutions in the re-lettering cells, constants without a literal form.',
    'symbolic execution (CrossHair+z3) of splice/offset kernels and edit entry points; symbolic column re-layout and Unicode re-lettering templates; CPython re-parse as leaf oracle',
    'DESIGN.md section 4 C01')
chk('C11',
    'T1: the two-phase offset exactly as put_src(action="offset") issues it, on 13 tree templates whose every column is a free integer (order kept): for every spot strictly inside any node and inside no child, '
    'every splice size (lines and bytes), nodes before do not move, nodes after move by exactly the delta, containing nodes grow. Path trees exhausted: holds for all column layouts of each line structure.',
    'P1: put_src(action=offset) through the public entry on every tokenize gap of 7 carriers (incl. f-string fields, debug fields, non-ASCII): source == requested splice and tree == CPython parse. One defect fixed (089b8c8). Bounds: 15 template line structures (incl. decorators, calls with interleaved keywords, multi-line lists, lambda, dict, comparison, with, comprehension, subscript). Outside: other structures; byte/char mapping is C01-K1.',
    'symbolic execution of fst_core._offset on symbolic re-layouts of parsed templates; z3 decides every position comparison; reference = position map a trivia splice induces',
    'DESIGN.md section 4 C11')
chk('C12',
    'K1: one inductive step of the modification registry from an arbitrary valid pre-state (unbounded in-progress count): every exit path (return, raise at any nesting level, refused nested modification, manual enter/success/fail) restores it exactly. '
    'K2: validate_put_arglike refuses exactly the splices that violate call-argument ordering. P1: ten kinds of invalid request on 47 carriers + arguments carriers with all bounds symbolic over Z, cuts with an impossible args_as conversion, circular puts (the own root of the tree as code): '
    'when the call raises, source, full attribute dump, links and registry equal the pre-state; a following valid edit with symbolic index succeeds and the CPython re-parse equals the tree.',
    'Bounds: listed carriers and invalid-request table; pep8space values -3..5. Two defects fixed (f43f084, 62a23c1). Outside: faults injected at arbitrary internal points (not required by the property).',
    'symbolic execution of _Modifying and the failing edit paths with symbolic indices; pre/post state equality; CPython re-parse after the follow-up edit',
    'DESIGN.md section 4 C12')

chk('C02',
    'T1: on 13 symbolically re-laid-out trees every node that moves under the put_src-offset shift, and every ancestor, loses its cached answers (poison entries) for all layouts/spots/sizes. '
    'P1/P2: [read-only queries of a symbolic kind on all nodes] -> [edit with symbolic indices over Z, or comment/docstring accessor on a symbolic target, or nothing] -> ~15 kinds of answers '
    '(loc, bloc, pars, own_src in 3 variants asked in a rotating order, byte coordinates, text at loc, parent/pfield/root, next/prev/first/last child, view lengths, docstring, line comment) '
    'on EVERY node equal the same answers on FST(root.src) built from scratch; root identity kept; 3-step histories after comment puts. P3: par() / par(force) / unpar() / unpar(node) on a symbolic expression ordinal of 6 carriers (tight, multi-line, non-ASCII layouts) after symbolic pre-queries.',
    'Bounds: 34 carriers + 1 accessor carrier + 6 parenthesis carriers, listed query kinds, histories <= 3 steps. Outside: other programs and queries. One defect fixed (stale pars() after unpar()).',
    'symbolic execution of edit entry points with symbolic indices and query schedules; oracle = the same queries on a freshly parsed tree',
    'DESIGN.md section 4 C02')
chk('C04',
    'K1: leading_trivia / trailing_trivia with the surrounding lines made of symbolic characters over the classes the scanners distinguish: the selected region never contains a code line, stays within the bound, '
    'honours none/block/all/line and the blank-line budget (which lines an edit may touch). K2: get_trivia_params == the documented option table with symbolic N in +N/-N. '
    'P1: edits with symbolic indices on comment-rich carriers: tokenize-based accounting (COMMENT/NAME/NUMBER/STRING multisets after = before - removed elements + new elements), '
    'no comment lost on a pure insertion, with trivia=(False, False) no comment lost outside the removed span, with trivia=(\'all\', \'all\') none lost outside the gap between the neighbouring elements, lines outside the container byte-identical. P2: comment put + block delete history.',
    'Bounds: 2-3 free lines x 2 symbolic characters per kernel cell; listed carriers. Two comment-loss defects of sequence insertion are listed as known findings (known_findings.json).',
    'symbolic execution of trivia selection over symbolic characters; tokenize multiset accounting at leaves of symbolic-index edits',
    'DESIGN.md section 4 C04')
chk('C06',
    'K1: bistr c2b/b2c/lenbytes == UTF-8 prefix sums for strings of <= 3 ARBITRARY code points incl. the cached lookup path. K2: next_frag / prev_frag == an independent character-class scanner for lines of <= 4 arbitrary code points, all bounds, comment/lcont flags. '
    'T1: for EVERY Unicode scalar >= U+0080 at the marked positions of 6 carriers, loc/bloc/pars/byte coordinates/text-at-loc of every node are the re-lettering of marker answers which are themselves checked against CPython positions and ast.get_source_segment. '
    'T2: find_contains_loc / find_in_loc with the query rectangle symbolic vs. a brute-force scan over ast.walk with the documented tie-breaks. '
    'P3: pars(shared=None|False|True) of every expression/pattern node asked in all 6 orders == a fresh tree asked that variant first; enclosing count == tokenize count of balanced pairs around the node.',
    'Bounds: string/line lengths above; carriers listed. One defect fixed (exact_top), decorators invisible to the by-location search listed as known findings.',
    'symbolic execution of byte/char maps and scanners over arbitrary code points; Unicode re-lettering templates; brute-force location search as reference',
    'DESIGN.md section 4 C06')
chk('C14',
    'T1: the position merges in syntax_ordered_children (Call, ClassDef) return a sorted permutation for EVERY assignment of (line in 1..3, column unbounded) to <= 3 starred positionals and <= 3 keywords (+ plain positionals). '
    'P1: on a carrier set covering every AST leaf class of Python 3.12, walk(all/loc/False, back) visits exactly ast.walk once, parents first, siblings in text order; back reverses siblings only; leave/both bracketing; '
    'step_fwd reproduces walk; next/prev/next_child/prev_child agree with walk(recurse=False) and are mutually inverse; child_path/child_from_path invert each other — for every start node; '
    'walks started at EVERY node in enter/leave/both mode under type filters: filtering commutes with walking, leave and enter yield the same set, both is bracketed.',
    'Bounds: merge sizes above; 4 carrier programs (finite choice variables enumerated by the solver for P1). One defect fixed (bd26183).',
    'symbolic execution of the merge code over symbolic positions; cross-API agreement with ast.walk and source positions as reference',
    'DESIGN.md section 4 C14')
chk('C17',
    'K1: the backtracking list matcher through MGlobal(...).match(ast.Global(...)): target = 0-4 SYMBOLIC letters, every quantifier min/max SYMBOLIC integers (None = unbounded), greedy/lazy per item, sub-list quantifiers: '
    'accept/reject == regular-expression semantics, captured counts == first solution in textbook backtracking order, second call identical. K1b: bare-class MQSTAR/MQPLUS/MQOPT(+NG) == .* .+ .? . K1s: untagged quantifiers carrying STATIC tags, inner tags must come from the last kept repetition. '
    'K2: leaf matchers == equality incl. int/bool/str distinctions. P1: search(p) == [n for n in walk if match(p)] for 8x8 patterns (incl. context-instance and pure-AST patterns) under 10 combinator wrappers, on the formatted tree, a re-laid-out tree and the pure AST. P2: pattern objects with shared sub-patterns reused in every order == fresh patterns.',
    'Bounds: targets <= 4, <= 2 quantified items, listed skeletons/wrappers. Four defects fixed (sub-list backtracking step, MNOT pre-filter, context-instance pre-filter, duplicated static tags). Outside: quantifiers nested inside sub-list quantifiers.',
    'symbolic execution of the quantifier engine with symbolic counts and symbolic target letters; reference = 30-line backtracking regex semantics',
    'DESIGN.md section 4 C17')
chk('C20',
    'K1: the option store, one cell per option: value over a 39-value vocabulary (all documented forms + near misses), a second option (valid / unknown / invalid), raising blocks, nested blocks and inner set_options: '
    'invalid => rejected with get_options() identical (validate-all-then-update), otherwise exactly the named options change and are restored exactly on block exit, accept/reject == documented value grammar. '
    'P1: an option passed to one edit never changes the defaults (also on raise), per-call result == per-block result, next call unaffected, symbolic slice bounds. P2: per-call / per-block options of a QUERY (own_src docstr) in all orders. '
    'P4: option values that are objects (FST operator node, list) reused across calls / blocks / thread defaults are only read. P3: two real threads, each editing its own tree under its own defaults / blocks / per-call options (incl. a failing edit and a raising block), with the SCHEDULE symbolic: which thread is preempted and after how many executed source lines of pfst code (every one of the ~5,000 + ~7,000 line boundaries), the other then runs to completion; each thread\'s observations equal its solo run.',
    'Threads: one preemption per run at source-line granularity, two threads (sys.settrace hook places the preemption; pfst code in the worker threads runs concretely, only the schedule is symbolic); more preemptions, bytecode-level races and free-threaded builds are outside. One defect fixed (trivia="" accepted).',
    'symbolic execution of check_options/set_options/options()/get_option with symbolic value and nesting choices; reference = documented grammar',
    'DESIGN.md section 4 C20')


chk('C05',
    'What a solver can reach of C05: the code pfst adds AROUND the C parser. K1: _astloc_from_src / _offset_linenos / _syntax_error_in_loc == direct definitions for symbolic sources and all integers. '
    'K2: _has_trailing_comma/_semicolon == an independent scanner with multi-byte text before the position. K3: _verify_no_close_delimiters raises exactly when the delimiter depth outside the first element goes negative '
    '(the guard that keeps "a),(b" from being accepted because of the wrapper). P1: 31 fragments x their extended parse modes == the sub-tree of the embedding construct parsed by CPython with positions relative to the fragment, 22 wrapper-escape / invalid texts rejected. P2: ~125 (fragment, mode) rows over 35 modes incl. every special slice x up to 6 layouts (trailing comment, split lines, non-ASCII names, wide spacing), same oracle. P3: LF / CRLF / bare-CR sources (known finding: bare CR). 34 wrapper-escape / invalid texts must be rejected (one defect fixed: e99988c).',
    'NOT claimed: the main clause over ARBITRARY source text (it has to pass through ast.parse, C code; no symbolic dimension survives) - stated in DESIGN.md section 5 and level_note. Bounds: sources <= 5 symbolic characters, listed fragment tables.',
    'symbolic execution of the position fix-up and wrapper-escape guards in parsex over symbolic characters/integers; table of fragments judged by CPython for the mode wrappers',
    'DESIGN.md section 4 C05')
chk('C07',
    'P1: get_slice / cut on 34 carriers with (start, stop) symbolic over Z and the option set symbolic over 10 trivia / pars settings: source tree byte-identical incl. every position after a copy; the piece, re-rendered and parsed by CPython inside the same kind of container, is exactly old[s:e]; '
    'expression pieces equal CPython\'s parse of their own source incl. positions; cut returns what copy returns and leaves what delete leaves; NAME/NUMBER/STRING/COMMENT multisets: original == remainder + piece. '
    'P2: copy() of every node leaves the tree untouched and parses alone to the same structure. T1: copies under Unicode re-lettering (all code points >= U+0080 at marked positions).',
    'Bounds: listed carriers and option sets, norm=True. A comment on an `else:` line is counted as part of the else keyword that goes with a fully removed block (interpretation, DESIGN.md section 12). Outside: other programs/option values.',
    'symbolic execution of get_slice/copy/cut with symbolic bounds; CPython re-parse of the extracted piece and token accounting as oracles; re-lettering templates',
    'DESIGN.md section 4 C07')
chk('C08',
    'K1: repr_str_multiline over strings of <= 4 symbolic characters from the alphabet that drives its quoting/escaping decisions, decoded by an independent triple-quote decoder == input. '
    'T1: put_line_comment(text) / get_line_comment() read back for EVERY code point >= U+0080 at marked positions of the text (solver found the documented trailing-whitespace strip via U+3000). '
    'P1: cut-and-put-back and replace-by-own copy / AST / source with symbolic indices, repeated twice: CPython-parsed structure equals the original. P2: 25 nasty docstring texts x every def/class/module: read back + CPython sees the same docstring. P3: own_src() of every node parses to that node, its three docstr variants asked in all 6 orders equal fresh trees.',
    'Bounds: listed carriers/texts/alphabet. Known findings: cut-and-put-back impossible after a norm collapse; a def replaced by its own pure AST gets its docstring indented twice. P5: every ASCII character in a line comment (one defect fixed: CR / NUL accepted).',
    'symbolic execution of the quoting kernel and comment accessor over symbolic characters; round trips with symbolic indices judged by CPython',
    'DESIGN.md section 4 C08')
chk('C09',
    'P1: every expression slot of 10 parent programs (all operators incl. associativity sides, call/subscript/attribute bases, comprehension parts, lambda/conditional parts, starred/keyword values, await/yield, statement slots, patterns, '
    'multi-line and parenthesised layouts) x 54 replacement snippets of every expression kind (one-line, multi-line, pre-parenthesised, with comments ending in a backslash): replace() must give source that CPython parses to the parent with exactly that replacement (reference: same substitution on the pure AST); '
    'refusal only if the substituted AST does not survive unparse->parse. ~11,000 (slot, snippet) pairs, solver-enumerated finite choice. One defect fixed (6ed5cd7). T1: replace scripts under Unicode re-lettering (byte vs char position of the new node).',
    'The precedence decision itself is table look-up over finite types: no integer/character variable exists for a solver to quantify, so the judge is CPython on every pair (stated). Outside: parents/snippets not in the tables; pars=False.',
    'finite-choice exploration through the symbolic driver with CPython parse of the pure-AST substitution as oracle; Unicode re-lettering for positions',
    'DESIGN.md section 4 C09')
chk('C10',
    'P1: put_src(text, ln, col, end_ln, end_col, "reparse") on 13 carriers x 17 replacement texts (incl. header-changing keywords, added else clauses, comments that cut a statement\'s tail) with the rectangle SYMBOLIC over Z^4 (clipped, negative, reversed, on/off node boundaries, spanning statements): '
    'S = independent splice; if CPython parses S the call must return, root.src == S, tree == ast.parse(S) incl. every position, links consistent, returned end position right; otherwise it must raise with source, tree and registry unchanged. '
    'P2: replace(code, raw=True) on every node x 10 codes. P3: roots that are not modules (expression, statement, pattern): valid for the root\'s kind or nothing changes. Three defects fixed (1fb1d70: 534 of 115k concrete combinations disagreed before; 41de7ff; 4ce0644); root-kind change on invalid source listed as known finding.',
    'Bounds: listed carriers/texts. Outside: reparse() with changed parse parameters.',
    'symbolic execution of put_src/raw reparse with a symbolic rectangle; independent splice + CPython parse as oracle',
    'DESIGN.md section 4 C10')
chk('C13',
    'P1: 4 carriers x scripts of two pure-AST mutations (21 kinds: new node, call-header edits whose local replay is refused, every primitive field, node from another tree, node POPPED from another tree, statements moved across list fields, delete/insert/swap/duplicate/move statements, rename, constant/operator change, constant changed to an equal value of another type, sibling swap) at symbolic node ordinals, 1-2 mark/reconcile rounds: '
    'result == CPython parse of its source incl. positions, structurally equal to the edited AST, unchanged source for the empty script, untouched top-level statements keep their exact text incl. comments, no comment appears more often than before (known finding: duplicated line comment of a shifted element). Finite script space, solver-enumerated. Four defects fixed (8f3f48e, 0f56bb8, f4b4ec8, f42a72e).',
    'Bounds: listed carriers and mutation kinds, 2 mutations per round.',
    'finite-choice exploration of mutation scripts through the symbolic driver; oracle = CPython parse + dump equality with the edited AST',
    'DESIGN.md section 4 C13')
chk('C15',
    'P1: 7 carriers x 7 walk settings (+ walks started at non-root nodes, so the walk root itself is mutated) with a SYMBOLIC consumer schedule: at which yield - entry AND leave yields - (k over 0..60) which of 10 actions (replace/remove current node, parent, grand-parent, previous/next sibling, insert before) happens and what is sent back (none/False/True); '
    'thorough: two events k1 < k2. Every yield alive, in this tree and not seen before on entry (on leave for on=leave) unless re-walked by send(True); termination bound; new children of a replacement walked next; send(True) on a leave yield re-walks the children and yields the node again; no exception; every node of the undisturbed walk that follows the mutation and survives is yielded; final tree == CPython parse. P2: search() consumer replacing/removing matches.',
    'Bounds: listed carriers, <= 2 mutation events. Two defects fixed (bc724e9, 74067c0); FST-object re-use after a norm collapse of a BoolOp listed as known findings. Outside: cut / raw edits during a walk (documented unsupported).',
    'symbolic execution of walk() under symbolic mutation schedules (bounded model checking over schedules)',
    'DESIGN.md section 4 C15')
chk('C16',
    'P1: 30 program templates (defaults, nested functions, global/nonlocal, class bodies, lambda, generator expressions incl. call / nested first iterables and walrus, imports, augmented assignment, except-as, match captures, decorators/annotations, type parameters, with/for) '
    'with every identifier slot symbolic over {a,b,c}: all aliasing patterns. Oracle symtable.symtable: load/store/del/global/nonlocal/local/free categories of scope_symbols(full=True) for every scope == symtable flags under a fixed mapping; scope walk yields no load of another scope. '
    'Names are realised before reaching CPython: the solver buys the aliasing partition only (stated). Three defects fixed (d2df3c8, 512fb98, 4bb0db3), one known finding (PEP 695 annotation scope).',
    'Bounds: listed templates; list/set/dict comprehensions are inlined by CPython 3.12 (no child table): for those only "pfst reports => CPython has" is judged.',
    'finite aliasing-pattern exploration through the symbolic driver; oracle = CPython symtable',
    'DESIGN.md section 4 C16')
chk('C18',
    'P1: 4 carriers x 5 (pattern, template) rows (single-node capture, slice capture, whole-match identity, name->attribute, slot inside a string literal) with count symbolic in -2..12, nested and on=leave symbolic: '
    'result == CPython parse incl. positions == a 40-line reference transformer on the pure AST (outermost first / captured nodes re-examined when nested / bottom-up on leave), reported counts == reference, comments outside substituted nodes conserved. P1.sub_loop: loop budget symbolic 0..6.',
    'Lowest depth of the claimed properties: thin integer domain, finite choice otherwise (stated). Known finding: string-slot fill leaves a stale Constant value (pinned by a golden test). Outside: callbacks, ctx/scope/back settings, other rows.',
    'symbolic-parameter exploration of subn(); oracle = reference AST transformer + CPython parse',
    'DESIGN.md section 4 C18')

chk('C19',
    'T1: 17 re-lettering cells: tuple/list/set/dict operands with marker characters in strings and comments are coerced by as_() or by a put that coerces (call arguments, decorators, assignment targets, '
    'with-items, comprehension ifs, match sequence / mapping); for EVERY Unicode scalar >= U+0080 at the markers the result text and every node position equal the re-lettering of the marker run, which CPython judged. '
    'P1: 89 operand rows x 42 target modes x {root FST, pure AST, non-root FST} x copy flag (symbolic selection): the result placed in the Python construct that holds such a fragment parses (CPython) to the result tree '
    'incl. relative positions and is of the requested kind; NAME/NUMBER/STRING tokens equal the operand\'s in order; same-kind root operand returned as is; copy mode / non-root operand untouched also when coercion fails; '
    'formatted and pure-AST operands coerce to structurally equal results. P2: 11 (container field, natural mode) targets: put_slice(node) == put_slice(node.as_(mode)), C01 on the result, failed put leaves the target unchanged, coerce option symbolic.',
    'Bounds: the operand / mode / target tables; norm=True. P1/P2 are finite selection through the solver (stated); the solver-heavy part is T1. "Parses in the requested mode" is judged by CPython on the embedding construct, with the '
    'leniencies pfst documents for its modes (bare yield/walrus/starred/tuple in expression modes, multi-line import names). Outside: operands and modes not in the tables, ExceptHandler / match_case / operator modes (nothing coerces to them).',
    'symbolic Unicode re-lettering of coercion source surgery (CrossHair+z3); symbolic selection over (operand, mode, form, copy) tables; oracles = CPython parse of the embedding construct, tokenize',
    'DESIGN.md section 4 C19')
