chk('C03',
    'Bounded symbolic model checking of the real code. K cells: fixup_one_index / fixup_slice_indices / clip_src_loc / _swizzle_getput_params / validate_put_arglike '
    'agree with Python list semantics for ALL integers (path tree exhausted, no bound on the ints). P cells: put_slice, put, insert, view __setitem__/__delitem__, '
    'sub-view insert/append/extend/prepend/prextend/replace/remove and element replace/remove on 29 carrier containers with every index/bound a symbolic integer over Z; '
    'at each leaf CPython re-parses the result and the container must equal the independently rendered old[:s]+new+old[e:], the rest of the tree unchanged, refusals only when that rendering is invalid Python.',
    'Bounds: carriers and new-code snippets listed in evidence; containers of length <= 4; single edit (histories are C01). Outside: other programs, longer containers, other element kinds.',
    'symbolic execution (CrossHair+z3) of real index/slice kernels and public edit entry points; path-tree exhaustion over all integers; CPython parse + list semantics as oracle',
    'DESIGN.md section 4 C03')

chk('C01',
    'Bounded symbolic model checking of the real code. K1: the text splice (_put_src/_params_offset) equals an independent splice and UTF-8 byte arithmetic for symbolic code points and all valid coordinates. '
    'T1: _offset on symbolically re-laid-out trees (every column a free integer, order kept) for every tail/head/exclude/self_ setting equals the behaviour its docstring defines. '
    'T2: "re-lettering": for EVERY Unicode scalar >= U+0080 at the marked positions of a carrier, an edit script yields exactly the re-lettering of the CPython-validated marker run (text + every position). '
    'P1/P2: public edits and 2-edit histories on 29 carriers with all indices symbolic over Z; at each leaf CPython re-parses the source and the dump incl. every lineno/col_offset must equal the live tree.',
    'Bounds: listed carriers/templates/scripts, containers <= 4 elements, histories of <= 2 edits, norm=True. Outside: other programs, longer histories, ASCII substitutions in the re-lettering cells.',
    'symbolic execution (CrossHair+z3) of splice/offset kernels and edit entry points; symbolic column re-layout and Unicode re-lettering templates; CPython re-parse as leaf oracle',
    'DESIGN.md section 4 C01')
chk('C11',
    'T1: the two-phase offset exactly as put_src(action="offset") issues it, on 13 tree templates whose every column is a free integer (order kept): for every spot strictly inside any node and inside no child, '
    'every splice size (lines and bytes), nodes before do not move, nodes after move by exactly the delta, containing nodes grow. Path trees exhausted: holds for all column layouts of each line structure.',
    'Bounds: 13 template line structures (incl. decorators, calls with interleaved keywords, multi-line lists, lambda, dict, comparison, with, comprehension, subscript). Outside: other structures; byte/char mapping is C01-K1.',
    'symbolic execution of fst_core._offset on symbolic re-layouts of parsed templates; z3 decides every position comparison; reference = position map a trivia splice induces',
    'DESIGN.md section 4 C11')
chk('C12',
    'K1: one inductive step of the modification registry from an arbitrary valid pre-state (unbounded in-progress count): every exit path (return, raise at any nesting level, refused nested modification, manual enter/success/fail) restores it exactly. '
    'K2: validate_put_arglike refuses exactly the splices that violate call-argument ordering. P1: nine kinds of invalid request on 29 carriers + arguments carriers with all bounds symbolic over Z: '
    'when the call raises, source, full attribute dump, links and registry equal the pre-state; a following valid edit with symbolic index succeeds and the CPython re-parse equals the tree.',
    'Bounds: listed carriers and invalid-request table; pep8space values -3..5. Outside: faults injected at arbitrary internal points (not required by the property).',
    'symbolic execution of _Modifying and the failing edit paths with symbolic indices; pre/post state equality; CPython re-parse after the follow-up edit',
    'DESIGN.md section 4 C12')

for _p in ['C02','C04','C05','C06','C07','C08','C09','C10','C13','C14','C15','C16','C17','C18','C20']:
    NA[_p] = 'check under construction in this session (see DESIGN.md section 4); will be claimed once its harness is committed'
NA['C19'] = ('coercion maps (tree, mode) to a tree through unparse/ast.parse (C code) before any pfst coercion code runs: no integer, character or schedule variable survives '
             'symbolically, what remains is a finite table judged by the C parser, i.e. enumeration of concrete runs, not a solver question (DESIGN.md section 5)')
