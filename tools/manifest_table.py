chk('C03',
    'Bounded symbolic model checking of the real code. K cells: fixup_one_index / fixup_slice_indices / clip_src_loc / _swizzle_getput_params / validate_put_arglike '
    'agree with Python list semantics for ALL integers (path tree exhausted, no bound on the ints). P cells: put_slice, put, insert, view __setitem__/__delitem__, '
    'sub-view insert/append/extend/prepend/prextend/replace/remove and element replace/remove on 29 carrier containers with every index/bound a symbolic integer over Z; '
    'at each leaf CPython re-parses the result and the container must equal the independently rendered old[:s]+new+old[e:], the rest of the tree unchanged, refusals only when that rendering is invalid Python.',
    'Bounds: carriers and new-code snippets listed in evidence; containers of length <= 4; single edit (histories are C01). Outside: other programs, longer containers, other element kinds.',
    'symbolic execution (CrossHair+z3) of real index/slice kernels and public edit entry points; path-tree exhaustion over all integers; CPython parse + list semantics as oracle',
    'DESIGN.md section 4 C03')

chk('C01',
    'Bounded symbolic model checking of the real code. K1: the text splice (_put_src/_params_offset) equals an independent splice and UTF-8 byte arithmetic for symbolic code points and all valid coordinates. '
    'T1: _offset on symbolically re-laid-out trees (every column a free integer, order kept) for every tail/head/exclude/self_ setting equals the behaviour its docstring defines. '
    'T2: "re-lettering": for EVERY Unicode scalar >= U+0080 at the marked positions of a carrier, an edit script yields exactly the re-lettering of the CPython-validated marker run (text + every position). '
    'P1/P2: public edits and 2-edit histories on 29 carriers with all indices symbolic over Z; at each leaf CPython re-parses the source and the dump incl. every lineno/col_offset must equal the live tree.',
    'Bounds: listed carriers/templates/scripts, containers <= 4 elements, histories of <= 2 edits, norm=True. Outside: other programs, longer histories, ASCII substitutions in the re-lettering cells.',
    'symbolic execution (CrossHair+z3) of splice/offset kernels and edit entry points; symbolic column re-layout and Unicode re-lettering templates; CPython re-parse as leaf oracle',
    'DESIGN.md section 4 C01')
chk('C11',
    'T1: the two-phase offset exactly as put_src(action="offset") issues it, on 13 tree templates whose every column is a free integer (order kept): for every spot strictly inside any node and inside no child, '
    'every splice size (lines and bytes), nodes before do not move, nodes after move by exactly the delta, containing nodes grow. Path trees exhausted: holds for all column layouts of each line structure.',
    'Bounds: 13 template line structures (incl. decorators, calls with interleaved keywords, multi-line lists, lambda, dict, comparison, with, comprehension, subscript). Outside: other structures; byte/char mapping is C01-K1.',
    'symbolic execution of fst_core._offset on symbolic re-layouts of parsed templates; z3 decides every position comparison; reference = position map a trivia splice induces',
    'DESIGN.md section 4 C11')
chk('C12',
    'K1: one inductive step of the modification registry from an arbitrary valid pre-state (unbounded in-progress count): every exit path (return, raise at any nesting level, refused nested modification, manual enter/success/fail) restores it exactly. '
    'K2: validate_put_arglike refuses exactly the splices that violate call-argument ordering. P1: nine kinds of invalid request on 29 carriers + arguments carriers with all bounds symbolic over Z: '
    'when the call raises, source, full attribute dump, links and registry equal the pre-state; a following valid edit with symbolic index succeeds and the CPython re-parse equals the tree.',
    'Bounds: listed carriers and invalid-request table; pep8space values -3..5. Outside: faults injected at arbitrary internal points (not required by the property).',
    'symbolic execution of _Modifying and the failing edit paths with symbolic indices; pre/post state equality; CPython re-parse after the follow-up edit',
    'DESIGN.md section 4 C12')

chk('C02',
    'T1: on 13 symbolically re-laid-out trees every node that moves under the put_src-offset shift, and every ancestor, loses its cached answers (poison entries) for all layouts/spots/sizes. '
    'P1/P2: [read-only queries of a symbolic kind on all nodes] -> [edit with symbolic indices over Z, or comment/docstring accessor on a symbolic target, or nothing] -> ~15 kinds of answers '
    '(loc, bloc, pars, own_src in 3 variants asked in a rotating order, byte coordinates, text at loc, parent/pfield/root, next/prev/first/last child, view lengths, docstring, line comment) '
    'on EVERY node equal the same answers on FST(root.src) built from scratch; root identity kept; 3-step histories after comment puts.',
    'Bounds: 29 carriers + 1 accessor carrier, listed query kinds, histories <= 3 steps. Outside: other programs and queries.',
    'symbolic execution of edit entry points with symbolic indices and query schedules; oracle = the same queries on a freshly parsed tree',
    'DESIGN.md section 4 C02')
chk('C04',
    'K1: leading_trivia / trailing_trivia with the surrounding lines made of symbolic characters over the classes the scanners distinguish: the selected region never contains a code line, stays within the bound, '
    'honours none/block/all/line and the blank-line budget (which lines an edit may touch). K2: get_trivia_params == the documented option table with symbolic N in +N/-N. '
    'P1: edits with symbolic indices on comment-rich carriers: tokenize-based accounting (COMMENT/NAME/NUMBER/STRING multisets after = before - removed elements + new elements), '
    'no comment lost on a pure insertion, with trivia=(False, False) no comment lost outside the removed span, lines outside the container byte-identical.',
    'Bounds: 2-3 free lines x 2 symbolic characters per kernel cell; listed carriers. Two comment-loss defects of sequence insertion are listed as known findings (known_findings.json).',
    'symbolic execution of trivia selection over symbolic characters; tokenize multiset accounting at leaves of symbolic-index edits',
    'DESIGN.md section 4 C04')
chk('C06',
    'K1: bistr c2b/b2c/lenbytes == UTF-8 prefix sums for strings of <= 3 ARBITRARY code points incl. the cached lookup path. K2: next_frag / prev_frag == an independent character-class scanner for lines of <= 4 arbitrary code points, all bounds, comment/lcont flags. '
    'T1: for EVERY Unicode scalar >= U+0080 at the marked positions of 6 carriers, loc/bloc/pars/byte coordinates/text-at-loc of every node are the re-lettering of marker answers which are themselves checked against CPython positions and ast.get_source_segment. '
    'T2: find_contains_loc / find_in_loc with the query rectangle symbolic vs. a brute-force scan over ast.walk with the documented tie-breaks.',
    'Bounds: string/line lengths above; carriers listed. One defect fixed (exact_top), decorators invisible to the by-location search listed as known findings.',
    'symbolic execution of byte/char maps and scanners over arbitrary code points; Unicode re-lettering templates; brute-force location search as reference',
    'DESIGN.md section 4 C06')
chk('C14',
    'T1: the position merges in syntax_ordered_children (Call, ClassDef) return a sorted permutation for EVERY assignment of (line in 1..3, column unbounded) to <= 3 starred positionals and <= 3 keywords (+ plain positionals). '
    'P1: on a carrier set covering every AST leaf class of Python 3.12, walk(all/loc/False, back) visits exactly ast.walk once, parents first, siblings in text order; back reverses siblings only; leave/both bracketing; '
    'step_fwd reproduces walk; next/prev/next_child/prev_child agree with walk(recurse=False) and are mutually inverse; child_path/child_from_path invert each other — for every start node.',
    'Bounds: merge sizes above; 4 carrier programs (finite choice variables enumerated by the solver for P1).',
    'symbolic execution of the merge code over symbolic positions; cross-API agreement with ast.walk and source positions as reference',
    'DESIGN.md section 4 C14')
chk('C17',
    'K1: the backtracking list matcher through MGlobal(...).match(ast.Global(...)): target = 0-4 SYMBOLIC letters, every quantifier min/max SYMBOLIC integers (None = unbounded), greedy/lazy per item, sub-list quantifiers: '
    'accept/reject == regular-expression semantics, captured counts == first solution in textbook backtracking order, second call identical. K1b: bare-class MQSTAR/MQPLUS/MQOPT(+NG) == .* .+ .? . '
    'K2: leaf matchers == equality incl. int/bool/str distinctions. P1: search(p) == [n for n in walk if match(p)] for 6x6 patterns under 10 combinator wrappers, on the formatted tree, a re-laid-out tree and the pure AST.',
    'Bounds: targets <= 4, <= 2 quantified items, listed skeletons/wrappers. Two defects fixed (sub-list backtracking step, MNOT pre-filter).',
    'symbolic execution of the quantifier engine with symbolic counts and symbolic target letters; reference = 30-line backtracking regex semantics',
    'DESIGN.md section 4 C17')
chk('C20',
    'K1: the option store, one cell per option: value over a 39-value vocabulary (all documented forms + near misses), a second option (valid / unknown / invalid), raising blocks, nested blocks and inner set_options: '
    'invalid => rejected with get_options() identical (validate-all-then-update), otherwise exactly the named options change and are restored exactly on block exit, accept/reject == documented value grammar. '
    'P1: an option passed to one edit never changes the defaults (also on raise), per-call result == per-block result, next call unaffected, symbolic slice bounds.',
    'Threads are OUTSIDE the claim: the symbolic executor is single-threaded (no schedule exploration). One defect fixed (trivia="" accepted).',
    'symbolic execution of check_options/set_options/options()/get_option with symbolic value and nesting choices; reference = documented grammar',
    'DESIGN.md section 4 C20')

for _p in ['C05','C07','C08','C09','C10','C13','C15','C16','C18']:
    NA[_p] = 'check under construction in this session (see DESIGN.md section 4); will be claimed once its harness is committed'
NA['C19'] = ('coercion maps (tree, mode) to a tree through unparse/ast.parse (C code) before any pfst coercion code runs: no integer, character or schedule variable survives '
             'symbolically, what remains is a finite table judged by the C parser, i.e. enumeration of concrete runs, not a solver question (DESIGN.md section 5)')
