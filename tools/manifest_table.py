chk('C03',
    'Bounded symbolic model checking of the real code. K cells: fixup_one_index / fixup_slice_indices / clip_src_loc / _swizzle_getput_params / validate_put_arglike '
    'agree with Python list semantics for ALL integers (path tree exhausted, no bound on the ints). P cells: put_slice, put, insert, view __setitem__/__delitem__, '
    'sub-view insert/append/extend/prepend/prextend/replace/remove and element replace/remove on 29 carrier containers with every index/bound a symbolic integer over Z; '
    'at each leaf CPython re-parses the result and the container must equal the independently rendered old[:s]+new+old[e:], the rest of the tree unchanged, refusals only when that rendering is invalid Python.',
    'Bounds: carriers and new-code snippets listed in evidence; containers of length <= 4; single edit (histories are C01). Outside: other programs, longer containers, other element kinds.',
    'symbolic execution (CrossHair+z3) of real index/slice kernels and public edit entry points; path-tree exhaustion over all integers; CPython parse + list semantics as oracle',
    'DESIGN.md section 4 C03')
for _p in ['C01','C02','C04','C05','C06','C07','C08','C09','C10','C11','C12','C13','C14','C15','C16','C17','C18','C20']:
    NA[_p] = 'check under construction in this session (see DESIGN.md section 4); will be claimed once its harness is committed'
NA['C19'] = ('coercion maps (tree, mode) to a tree through unparse/ast.parse (C code) before any pfst coercion code runs: no integer, character or schedule variable survives '
             'symbolically, what remains is a finite table judged by the C parser, i.e. enumeration of concrete runs, not a solver question (DESIGN.md section 5)')
